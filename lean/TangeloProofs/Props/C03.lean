import TangeloModel.JW
import TangeloProofs.Lemmas.OpInverse
/-!
# C03 — fermion-to-qubit encodings are faithful representations (Jordan-Wigner proved; others by oracle)
-/
namespace Tangelo.C03
open Tangelo JW
variable {R : Type} [CommRing R]

/-! ## single-qubit Pauli operators on amplitudes -/

theorem z_sem (k : Consts R) (q : Nat) (φ : State R) (x : Bits) :
    (Op.one .Z 0 q []).sem k φ x = (if x q then -1 else 1) * φ x := by
  simp only [Op.sem, ctl_nil, app1, baseMatrix]
  by_cases h : x q
  · simp only [h, if_true, zero_mul, zero_add]; rw [← h, Bits.set_self]
  · have h' : x q = false := by simpa using h
    simp only [h', Bool.false_eq_true, if_false, zero_mul, add_zero]; rw [← h', Bits.set_self]

theorem x_sem (k : Consts R) (q : Nat) (φ : State R) (x : Bits) :
    (Op.one .X 0 q []).sem k φ x = φ (x.set q (!x q)) := by
  simp only [Op.sem, ctl_nil, app1, baseMatrix]
  by_cases h : x q <;> simp [h]

theorem y_sem (k : Consts R) (q : Nat) (φ : State R) (x : Bits) :
    (Op.one .Y 0 q []).sem k φ x = (if x q then k.i else -k.i) * φ (x.set q (!x q)) := by
  simp only [Op.sem, ctl_nil, app1, baseMatrix]
  by_cases h : x q <;> simp [h]

/-! ## the Z string carries the fermionic sign -/

theorem belowSign_succ (j : Nat) (x : Bits) : (belowSign (j + 1) x : R) = (if x j then -1 else 1) * belowSign j x := by
  simp only [belowSign, List.range_succ, List.foldl_append, List.foldl_cons, List.foldl_nil]
  split <;> simp

theorem belowSign_set (j q : Nat) (hq : j ≤ q) (x : Bits) (b : Bool) : (belowSign j (x.set q b) : R) = belowSign j x := by
  induction j with
  | zero => rfl
  | succ j ih =>
    rw [belowSign_succ, belowSign_succ, ih (by omega)]
    have : j ≠ q := by omega
    simp [Bits.set, this]

theorem zString_succ (j : Nat) : zString (j + 1) = zString j ++ [(j, 1)] := by
  simp [zString, List.range_succ]

theorem wordSem_append (k : Consts R) (a b : Key) (ψ : State R) : wordSem k (a ++ b) ψ = wordSem k b (wordSem k a ψ) := by
  simp [wordSem, semOps_append]

theorem zString_sem (k : Consts R) (j : Nat) (ψ : State R) (x : Bits) :
    wordSem k (zString j) ψ x = belowSign j x * ψ x := by
  induction j generalizing x with
  | zero => simp [zString, wordSem, semOps, belowSign]
  | succ j ih =>
    rw [zString_succ, wordSem_append]
    have : wordSem k [(j, 1)] (wordSem k (zString j) ψ) x = (Op.one .Z 0 j []).sem k (wordSem k (zString j) ψ) x := rfl
    rw [this, z_sem, ih, belowSign_succ]
    ring

/-! ## Jordan-Wigner intertwines the ladder operators with their Fock-space action -/

/-- **annihilation**: ½·X_j Z…Z + (i/2)·Y_j Z…Z acts on amplitudes exactly as a_j acts on Fock space — every
    mode j, every register size, every state -/
theorem jw_annihilate (k : Consts R) (L : k.Laws) (j : Nat) (ψ : State R) (x : Bits) :
    k.half * wordSem k (zString j ++ [(j, 2)]) ψ x + (k.half * k.i) * wordSem k (zString j ++ [(j, 3)]) ψ x = annihilate j ψ x := by
  rw [wordSem_append, wordSem_append]
  have hx : wordSem k [(j, 2)] (wordSem k (zString j) ψ) x = (Op.one .X 0 j []).sem k (wordSem k (zString j) ψ) x := rfl
  have hy : wordSem k [(j, 3)] (wordSem k (zString j) ψ) x = (Op.one .Y 0 j []).sem k (wordSem k (zString j) ψ) x := rfl
  rw [hx, hy, x_sem, y_sem, zString_sem, belowSign_set j j (Nat.le_refl j)]
  unfold annihilate
  by_cases h : x j
  · simp only [h, if_true, Bool.not_true]
    linear_combination (k.half * belowSign j x * ψ (x.set j false)) * L.i_sq
  · have h' : x j = false := by simpa using h
    simp only [h', Bool.false_eq_true, if_false, Bool.not_false]
    linear_combination (belowSign j x * ψ (x.set j true)) * L.two_half - (k.half * belowSign j x * ψ (x.set j true)) * L.i_sq

/-- **creation**: ½·X_j Z…Z − (i/2)·Y_j Z…Z acts as a_j† -/
theorem jw_create (k : Consts R) (L : k.Laws) (j : Nat) (ψ : State R) (x : Bits) :
    k.half * wordSem k (zString j ++ [(j, 2)]) ψ x + (-(k.half * k.i)) * wordSem k (zString j ++ [(j, 3)]) ψ x = create j ψ x := by
  rw [wordSem_append, wordSem_append]
  have hx : wordSem k [(j, 2)] (wordSem k (zString j) ψ) x = (Op.one .X 0 j []).sem k (wordSem k (zString j) ψ) x := rfl
  have hy : wordSem k [(j, 3)] (wordSem k (zString j) ψ) x = (Op.one .Y 0 j []).sem k (wordSem k (zString j) ψ) x := rfl
  rw [hx, hy, x_sem, y_sem, zString_sem, belowSign_set j j (Nat.le_refl j)]
  unfold create
  by_cases h : x j
  · simp only [h, if_true, Bool.not_true]
    linear_combination (belowSign j x * ψ (x.set j false)) * L.two_half - (k.half * belowSign j x * ψ (x.set j false)) * L.i_sq
  · have h' : x j = false := by simpa using h
    simp only [h', Bool.false_eq_true, if_false, Bool.not_false]
    linear_combination (k.half * belowSign j x * ψ (x.set j true)) * L.i_sq

/-- the two words and coefficients above are exactly what the model of the JW transform emits -/
theorem ladder_terms (j : Nat) :
    ladder j false = [(zString j ++ [(j, 2)], Cyc.half), (zString j ++ [(j, 3)], Cyc.half * Cyc.I)] ∧
    ladder j true = [(zString j ++ [(j, 2)], Cyc.half), (zString j ++ [(j, 3)], -(Cyc.half * Cyc.I))] := ⟨rfl, rfl⟩

/-! ## on-site anticommutator on Fock space (inherited by the encoding through the intertwining) -/

theorem belowSign_sq (j : Nat) (x : Bits) : (belowSign j x : R) * belowSign j x = 1 := by
  induction j with
  | zero => simp [belowSign]
  | succ j ih => rw [belowSign_succ]; split <;> linear_combination ih

/-- a_j a_j† + a_j† a_j = 1 -/
theorem car_same_mode (j : Nat) (ψ : State R) (x : Bits) :
    annihilate j (create j ψ) x + create j (annihilate j ψ) x = ψ x := by
  unfold annihilate create
  by_cases h : x j
  · simp only [h, if_true, Bits.set_same, Bool.false_eq_true, if_false, Bits.set_set, zero_add]
    rw [belowSign_set j j (Nat.le_refl j), ← h, Bits.set_self]
    linear_combination (ψ x) * belowSign_sq (R := R) j x
  · have h' : x j = false := by simpa using h
    simp only [h', Bool.false_eq_true, if_false, Bits.set_same, if_true, Bits.set_set, add_zero]
    rw [belowSign_set j j (Nat.le_refl j), ← h', Bits.set_self]
    linear_combination (ψ x) * belowSign_sq (R := R) j x

/-- a_j a_j = 0 and a_j† a_j† = 0 (Pauli exclusion) -/
theorem nilpotent (j : Nat) (ψ : State R) (x : Bits) : annihilate j (annihilate j ψ) x = 0 ∧ create j (create j ψ) x = 0 := by
  unfold annihilate create
  constructor
  · by_cases h : x j <;> simp [h]
  · by_cases h : x j <;> simp [h]

/-! ## anticommutation of different modes on Fock space -/

/-- changing the occupation of a mode below j flips the sign of the modes below j -/
theorem belowSign_flip_below (j i : Nat) (hi : i < j) (x : Bits) :
    (belowSign j (x.set i (!(x i))) : R) = -belowSign j x := by
  induction j with
  | zero => omega
  | succ j ih =>
    rw [belowSign_succ, belowSign_succ]
    by_cases hij : i = j
    · subst hij
      rw [belowSign_set i i (Nat.le_refl i)]
      simp only [Bits.set_same]
      cases x i <;> simp
    · have hlt : i < j := by omega
      rw [ih hlt]
      have : (x.set i (!(x i))) j = x j := by simp [Bits.set, Ne.symm hij]
      rw [this]; ring

theorem belowSign_set_below (j i : Nat) (hi : i < j) (x : Bits) (hx : x i = false) :
    (belowSign j (x.set i true) : R) = -belowSign j x := by
  have := belowSign_flip_below (R := R) j i hi x
  rw [hx] at this; simpa using this

theorem belowSign_unset_below (j i : Nat) (hi : i < j) (x : Bits) (hx : x i = true) :
    (belowSign j (x.set i false) : R) = -belowSign j x := by
  have := belowSign_flip_below (R := R) j i hi x
  rw [hx] at this; simpa using this

/-- a_i a_j + a_j a_i = 0 for i < j -/
theorem car_annihilate_annihilate (i j : Nat) (hij : i < j) (ψ : State R) (x : Bits) :
    annihilate i (annihilate j ψ) x + annihilate j (annihilate i ψ) x = 0 := by
  have hne : i ≠ j := by omega
  unfold annihilate
  by_cases hi : x i <;> by_cases hj : x j
  · simp [hi, hj, Bits.set_other _ _ _ _ hne, Bits.set_other _ _ _ _ (Ne.symm hne)]
  · simp [hi, hj, Bits.set_other _ _ _ _ hne, Bits.set_other _ _ _ _ (Ne.symm hne)]
  · simp [hi, hj, Bits.set_other _ _ _ _ hne, Bits.set_other _ _ _ _ (Ne.symm hne)]
  · have hi' : x i = false := by simpa using hi
    have hj' : x j = false := by simpa using hj
    simp only [hi', hj', Bool.false_eq_true, if_false, Bits.set_other _ _ _ _ hne, Bits.set_other _ _ _ _ (Ne.symm hne)]
    rw [belowSign_set_below j i hij x hi', belowSign_set i j (by omega), Bits.set_comm x i j true true hne]
    ring

/-- a_i† a_j† + a_j† a_i† = 0 for i < j -/
theorem car_create_create (i j : Nat) (hij : i < j) (ψ : State R) (x : Bits) :
    create i (create j ψ) x + create j (create i ψ) x = 0 := by
  have hne : i ≠ j := by omega
  unfold create
  by_cases hi : x i <;> by_cases hj : x j
  · simp only [hi, hj, if_true, Bits.set_other _ _ _ _ hne, Bits.set_other _ _ _ _ (Ne.symm hne)]
    rw [belowSign_unset_below j i hij x hi, belowSign_set i j (by omega), Bits.set_comm x i j false false hne]
    ring
  · simp [hi, hj, Bits.set_other _ _ _ _ hne, Bits.set_other _ _ _ _ (Ne.symm hne)]
  · simp [hi, hj, Bits.set_other _ _ _ _ hne, Bits.set_other _ _ _ _ (Ne.symm hne)]
  · simp [hi, hj, Bits.set_other _ _ _ _ hne, Bits.set_other _ _ _ _ (Ne.symm hne)]

/-- a_i a_j† + a_j† a_i = 0 for i < j (and the same with the roles of i and j exchanged) -/
theorem car_annihilate_create (i j : Nat) (hij : i < j) (ψ : State R) (x : Bits) :
    annihilate i (create j ψ) x + create j (annihilate i ψ) x = 0 ∧
    annihilate j (create i ψ) x + create i (annihilate j ψ) x = 0 := by
  have hne : i ≠ j := by omega
  unfold annihilate create
  constructor
  · by_cases hi : x i <;> by_cases hj : x j
    · simp [hi, hj, Bits.set_other _ _ _ _ hne, Bits.set_other _ _ _ _ (Ne.symm hne)]
    · simp [hi, hj, Bits.set_other _ _ _ _ hne, Bits.set_other _ _ _ _ (Ne.symm hne)]
    · have hi' : x i = false := by simpa using hi
      simp only [hi', hj, Bool.false_eq_true, if_false, if_true, Bits.set_other _ _ _ _ hne, Bits.set_other _ _ _ _ (Ne.symm hne)]
      rw [belowSign_set_below j i hij x hi', belowSign_set i j (by omega), Bits.set_comm x i j true false hne]
      ring
    · simp [hi, hj, Bits.set_other _ _ _ _ hne, Bits.set_other _ _ _ _ (Ne.symm hne)]
  · by_cases hi : x i <;> by_cases hj : x j
    · simp [hi, hj, Bits.set_other _ _ _ _ hne, Bits.set_other _ _ _ _ (Ne.symm hne)]
    · have hj' : x j = false := by simpa using hj
      simp only [hi, hj', Bool.false_eq_true, if_false, if_true, Bits.set_other _ _ _ _ hne, Bits.set_other _ _ _ _ (Ne.symm hne)]
      rw [belowSign_unset_below j i hij x hi, belowSign_set i j (by omega), Bits.set_comm x i j false true hne]
      ring
    · simp [hi, hj, Bits.set_other _ _ _ _ hne, Bits.set_other _ _ _ _ (Ne.symm hne)]
    · simp [hi, hj, Bits.set_other _ _ _ _ hne, Bits.set_other _ _ _ _ (Ne.symm hne)]

/-! ## spin re-ordering is a bijection of the modes -/

theorem upThenDown_lt (n i : Nat) (hn : n % 2 = 0) (hi : i < n) : upThenDown n i < n := by
  unfold upThenDown; split <;> simp_all <;> omega

theorem upThenDown_injective (n i i' : Nat) (hn : n % 2 = 0) (hi : i < n) (hi' : i' < n)
    (h : upThenDown n i = upThenDown n i') : i = i' := by
  unfold upThenDown at h
  split at h <;> split at h <;> simp_all <;> omega

/-! ## non-vacuity -/
example : ladder 2 false = [([(0, 1), (1, 1), (2, 2)], Cyc.half), ([(0, 1), (1, 1), (2, 3)], Cyc.half * Cyc.I)] := by decide +kernel
example : (List.range 6).map (upThenDown 6) = [0, 3, 1, 4, 2, 5] := by decide

end Tangelo.C03
