import TangeloModel.Num
import Mathlib.Tactic.Ring
import Mathlib.Algebra.Ring.Basic
import Mathlib.Algebra.Star.Basic
import Mathlib.Algebra.Order.Ring.Rat

/-! `Cyc` (the number type the driver executes) is a commutative ring with an
involutive ring automorphism `conj`; so every theorem proved for an arbitrary
`[CommRing R]` applies to what the driver computes. -/
namespace Tangelo.Cyc

@[simp] theorem add_c0 (a b : Cyc) : (a + b).c0 = a.c0 + b.c0 := rfl
@[simp] theorem add_c1 (a b : Cyc) : (a + b).c1 = a.c1 + b.c1 := rfl
@[simp] theorem add_c2 (a b : Cyc) : (a + b).c2 = a.c2 + b.c2 := rfl
@[simp] theorem add_c3 (a b : Cyc) : (a + b).c3 = a.c3 + b.c3 := rfl
@[simp] theorem add_c4 (a b : Cyc) : (a + b).c4 = a.c4 + b.c4 := rfl
@[simp] theorem add_c5 (a b : Cyc) : (a + b).c5 = a.c5 + b.c5 := rfl
@[simp] theorem add_c6 (a b : Cyc) : (a + b).c6 = a.c6 + b.c6 := rfl
@[simp] theorem add_c7 (a b : Cyc) : (a + b).c7 = a.c7 + b.c7 := rfl
@[simp] theorem neg_c0 (a : Cyc) : (-a).c0 = -a.c0 := rfl
@[simp] theorem neg_c1 (a : Cyc) : (-a).c1 = -a.c1 := rfl
@[simp] theorem neg_c2 (a : Cyc) : (-a).c2 = -a.c2 := rfl
@[simp] theorem neg_c3 (a : Cyc) : (-a).c3 = -a.c3 := rfl
@[simp] theorem neg_c4 (a : Cyc) : (-a).c4 = -a.c4 := rfl
@[simp] theorem neg_c5 (a : Cyc) : (-a).c5 = -a.c5 := rfl
@[simp] theorem neg_c6 (a : Cyc) : (-a).c6 = -a.c6 := rfl
@[simp] theorem neg_c7 (a : Cyc) : (-a).c7 = -a.c7 := rfl
@[simp] theorem sub_c0 (a b : Cyc) : (a - b).c0 = a.c0 - b.c0 := rfl
@[simp] theorem sub_c1 (a b : Cyc) : (a - b).c1 = a.c1 - b.c1 := rfl
@[simp] theorem sub_c2 (a b : Cyc) : (a - b).c2 = a.c2 - b.c2 := rfl
@[simp] theorem sub_c3 (a b : Cyc) : (a - b).c3 = a.c3 - b.c3 := rfl
@[simp] theorem sub_c4 (a b : Cyc) : (a - b).c4 = a.c4 - b.c4 := rfl
@[simp] theorem sub_c5 (a b : Cyc) : (a - b).c5 = a.c5 - b.c5 := rfl
@[simp] theorem sub_c6 (a b : Cyc) : (a - b).c6 = a.c6 - b.c6 := rfl
@[simp] theorem sub_c7 (a b : Cyc) : (a - b).c7 = a.c7 - b.c7 := rfl
@[simp] theorem zero_c0 : (0 : Cyc).c0 = 0 := rfl
@[simp] theorem zero_c1 : (0 : Cyc).c1 = 0 := rfl
@[simp] theorem zero_c2 : (0 : Cyc).c2 = 0 := rfl
@[simp] theorem zero_c3 : (0 : Cyc).c3 = 0 := rfl
@[simp] theorem zero_c4 : (0 : Cyc).c4 = 0 := rfl
@[simp] theorem zero_c5 : (0 : Cyc).c5 = 0 := rfl
@[simp] theorem zero_c6 : (0 : Cyc).c6 = 0 := rfl
@[simp] theorem zero_c7 : (0 : Cyc).c7 = 0 := rfl
@[simp] theorem one_c0 : (1 : Cyc).c0 = 1 := rfl
@[simp] theorem one_c1 : (1 : Cyc).c1 = 0 := rfl
@[simp] theorem one_c2 : (1 : Cyc).c2 = 0 := rfl
@[simp] theorem one_c3 : (1 : Cyc).c3 = 0 := rfl
@[simp] theorem one_c4 : (1 : Cyc).c4 = 0 := rfl
@[simp] theorem one_c5 : (1 : Cyc).c5 = 0 := rfl
@[simp] theorem one_c6 : (1 : Cyc).c6 = 0 := rfl
@[simp] theorem one_c7 : (1 : Cyc).c7 = 0 := rfl
@[simp] theorem mul_c0 (a b : Cyc) : (a * b).c0 = (mul a b).c0 := rfl
@[simp] theorem mul_c1 (a b : Cyc) : (a * b).c1 = (mul a b).c1 := rfl
@[simp] theorem mul_c2 (a b : Cyc) : (a * b).c2 = (mul a b).c2 := rfl
@[simp] theorem mul_c3 (a b : Cyc) : (a * b).c3 = (mul a b).c3 := rfl
@[simp] theorem mul_c4 (a b : Cyc) : (a * b).c4 = (mul a b).c4 := rfl
@[simp] theorem mul_c5 (a b : Cyc) : (a * b).c5 = (mul a b).c5 := rfl
@[simp] theorem mul_c6 (a b : Cyc) : (a * b).c6 = (mul a b).c6 := rfl
@[simp] theorem mul_c7 (a b : Cyc) : (a * b).c7 = (mul a b).c7 := rfl

instance : CommRing Cyc where
  add_assoc x y z := by ext <;> simp <;> ring
  zero_add x := by ext <;> simp
  add_zero x := by ext <;> simp
  add_comm x y := by ext <;> simp <;> ring
  neg_add_cancel x := by ext <;> simp
  sub_eq_add_neg x y := by ext <;> simp <;> ring
  mul_assoc x y z := by ext <;> simp [mul] <;> ring
  one_mul x := by ext <;> simp [mul]
  mul_one x := by ext <;> simp [mul]
  left_distrib x y z := by ext <;> simp [mul] <;> ring
  right_distrib x y z := by ext <;> simp [mul] <;> ring
  mul_comm x y := by ext <;> simp [mul] <;> ring
  zero_mul x := by ext <;> simp [mul]
  mul_zero x := by ext <;> simp [mul]
  nsmul := nsmulRec
  zsmul := zsmulRec

theorem conj_conj (a : Cyc) : conj (conj a) = a := by ext <;> simp [conj]
theorem conj_add (a b : Cyc) : conj (a + b) = conj a + conj b := by ext <;> simp [conj] <;> ring
theorem conj_mul (a b : Cyc) : conj (a * b) = conj a * conj b := by ext <;> simp [conj, mul] <;> ring

instance : StarRing Cyc where
  star := conj
  star_involutive := conj_conj
  star_mul a b := by rw [mul_comm]; exact conj_mul b a
  star_add := conj_add

theorem I_mul_I : I * I = -1 := by ext <;> simp [I, mul]
theorem rsqrt2_sq : 2 * (rsqrt2 * rsqrt2) = 1 := by
  ext <;> simp [rsqrt2, mul, show (2 : Cyc) = 1 + 1 from by norm_num] <;> norm_num
theorem zeta_pow_four : zeta * zeta * zeta * zeta = I := by ext <;> simp [zeta, I, mul]
theorem star_I : star I = -I := by ext <;> simp [star, conj, I]
theorem star_zeta_mul : star zeta * zeta = 1 := by ext <;> simp [star, conj, zeta, mul]

end Tangelo.Cyc
