import TangeloModel.Measure
import TangeloProofs.Lemmas.Isometry
/-!
# Inner products, adjoints of one-qubit operators, and the measurement-basis identity

`inner n φ ψ = Σ_{i<2ⁿ} star(φ xᵢ) ψ xᵢ`.  For a 2×2 matrix `M` acting on a qubit of the register,
`⟨M φ | χ⟩ = ⟨φ | M† χ⟩`.  For a Pauli word `w` with distinct qubits inside the register and basis
rotations `B p` with `B p† · Z · B p = p`:  `⟨B_w φ | Z_w B_w ψ⟩ = ⟨φ | P_w ψ⟩` — the expectation value read
off the measurement-basis frequencies by the parity rule is the overlap `⟨ψ|P_w|ψ⟩`, for every state and
every register size.
-/
namespace Tangelo
open Finset

variable {R : Type} [CommRing R] [StarRing R]

def inner (n : Nat) (φ ψ : State R) : R := ∑ i ∈ range (2 ^ n), star (φ (bitsOf i)) * ψ (bitsOf i)

theorem inner_self (n : Nat) (ψ : State R) : inner n ψ ψ = normSq n ψ := rfl

/-- sums whose summands agree pair by pair under an index involution agree -/
theorem sum_of_pairs (k : Consts R) (L : k.Laws) (n : Nat) (σ : Nat → Nat)
    (hσ : ∀ i, i < 2 ^ n → σ i < 2 ^ n) (hinv : ∀ i, i < 2 ^ n → σ (σ i) = i) (F G : Nat → R)
    (hp : ∀ i, i < 2 ^ n → F i + F (σ i) = G i + G (σ i)) :
    ∑ i ∈ range (2 ^ n), F i = ∑ i ∈ range (2 ^ n), G i := by
  have h1 := sum_involution n σ hσ hinv F
  have h2 := sum_involution n σ hσ hinv G
  have h3 : ∑ i ∈ range (2 ^ n), (F i + F (σ i)) = ∑ i ∈ range (2 ^ n), (G i + G (σ i)) :=
    Finset.sum_congr rfl (fun i hi => hp i (mem_range.mp hi))
  rw [sum_add_distrib, sum_add_distrib, h1, h2] at h3
  have two := L.two_half
  linear_combination k.half * h3 - (∑ i ∈ range (2 ^ n), F i - ∑ i ∈ range (2 ^ n), G i) * two

/-- conjugate transpose -/
def M2.adj (m : M2 R) : M2 R := ⟨star m.a, star m.c, star m.b, star m.d⟩

/-- **adjoint**: ⟨M φ | χ⟩ = ⟨φ | M† χ⟩ for a one-qubit operator on a qubit of the register -/
theorem inner_app1_left (k : Consts R) (L : k.Laws) (n : Nat) (m : M2 R) (t : Nat) (ht : t < n) (φ χ : State R) :
    inner n (app1 m t φ) χ = inner n φ (app1 m.adj t χ) := by
  unfold inner
  apply sum_of_pairs k L n (fun i => i ^^^ 2 ^ t) (fun i hi => xor_pow_lt n i t hi ht) (fun i _ => xor_xor_self i _)
  intro i _
  simp only [bitsOf_xor_pow]
  generalize bitsOf i = x
  have hf : (x.flip t) t = !(x t) := by simp [Bits.flip]
  have s0 : (x.flip t).set t false = x.set t false := by funext q; simp only [Bits.flip, Bits.set]; split <;> rfl
  have s1 : (x.flip t).set t true = x.set t true := by funext q; simp only [Bits.flip, Bits.set]; split <;> rfl
  cases hx : x t
  · have e0 : x.set t false = x := by rw [← hx]; exact Bits.set_self x t
    have e1 : x.set t true = x.flip t := by rw [flip_set, hx]; rfl
    simp only [app1, hx, hf, s0, s1, e0, e1, Bool.not_false, Bool.false_eq_true, if_false, if_true, M2.adj,
      star_add, star_mul', star_star]
    ring
  · have e1 : x.set t true = x := by rw [← hx]; exact Bits.set_self x t
    have e0 : x.set t false = x.flip t := by rw [flip_set, hx]; rfl
    simp only [app1, hx, hf, s0, s1, e0, e1, Bool.not_true, Bool.false_eq_true, if_false, if_true, M2.adj,
      star_add, star_mul', star_star]
    ring

/-! ## one-qubit operators on different qubits commute -/

theorem app1_comm (m m' : M2 R) (t t' : Nat) (h : t ≠ t') (ψ : State R) :
    app1 m t (app1 m' t' ψ) = app1 m' t' (app1 m t ψ) := by
  funext x
  have h' : t' ≠ t := fun e => h e.symm
  have c00 := Bits.set_comm x t t' false false h
  have c01 := Bits.set_comm x t t' false true h
  have c10 := Bits.set_comm x t t' true false h
  have c11 := Bits.set_comm x t t' true true h
  simp only [app1, Bits.set_other _ _ _ _ h, Bits.set_other _ _ _ _ h', c00, c01, c10, c11]
  by_cases h1 : x t <;> by_cases h2 : x t' <;> simp [h1, h2] <;> ring

/-- a word of one-qubit operators, first entry applied first -/
def wordOps (F : Pauli → M2 R) (w : PWord) (ψ : State R) : State R :=
  w.foldl (fun acc qp => app1 (F qp.2) qp.1 acc) ψ

theorem wordOps_cons (F : Pauli → M2 R) (q : Nat) (p : Pauli) (w : PWord) (ψ : State R) :
    wordOps F ((q, p) :: w) ψ = wordOps F w (app1 (F p) q ψ) := rfl

theorem app1_wordOps_comm (F : Pauli → M2 R) (m : M2 R) (q : Nat) (w : PWord) (hq : q ∉ w.map (·.1)) (ψ : State R) :
    app1 m q (wordOps F w ψ) = wordOps F w (app1 m q ψ) := by
  induction w generalizing ψ with
  | nil => rfl
  | cons qp w ih =>
    obtain ⟨q', p'⟩ := qp
    have hne : q ≠ q' := fun e => hq (by simp [e])
    have hq' : q ∉ w.map (·.1) := fun e => hq (by simp [e])
    rw [wordOps_cons, wordOps_cons, ih hq', app1_comm m (F p') q q' hne]

/-! ## the measurement-basis identity -/

def pauliMat (k : Consts R) : Pauli → M2 R
  | .X => baseMatrix k .X 0
  | .Y => baseMatrix k .Y 0
  | .Z => baseMatrix k .Z 0

/-- basis rotations `B` are right when `B p† · Z · B p = p` -/
def RotOk (k : Consts R) (B : Pauli → M2 R) : Prop :=
  ∀ p, (M2.adj (B p)).mul ((baseMatrix k .Z 0).mul (B p)) = pauliMat k p

/-- **sesquilinear form of the frequency route**: rotate both states into the measurement basis of the word,
    apply the Z-string — the result is the matrix element of the Pauli word itself -/
theorem meas_basis_identity (k : Consts R) (L : k.Laws) (n : Nat) (B : Pauli → M2 R) (hB : RotOk k B)
    (w : PWord) (hnd : (w.map (·.1)).Nodup) (hlt : ∀ qp ∈ w, qp.1 < n) (φ ψ : State R) :
    inner n (wordOps B w φ) (wordOps (fun _ => baseMatrix k .Z 0) w (wordOps B w ψ)) = inner n φ (wordOps (pauliMat k) w ψ) := by
  induction w generalizing φ ψ with
  | nil => rfl
  | cons qp w ih =>
    obtain ⟨q, p⟩ := qp
    simp only [List.map_cons, List.nodup_cons] at hnd
    have hq : q ∉ w.map (·.1) := hnd.1
    have hlt' : ∀ qp ∈ w, qp.1 < n := fun qp h => hlt qp (List.mem_cons_of_mem _ h)
    have hqn : q < n := hlt (q, p) List.mem_cons_self
    rw [wordOps_cons, wordOps_cons, wordOps_cons, wordOps_cons]
    rw [app1_wordOps_comm B (baseMatrix k .Z 0) q w hq]
    rw [ih hnd.2 hlt' (app1 (B p) q φ) (app1 (baseMatrix k .Z 0) q (app1 (B p) q ψ))]
    rw [inner_app1_left k L n (B p) q hqn]
    rw [app1_wordOps_comm (pauliMat k) (M2.adj (B p)) q w hq]
    rw [app1_app1 (baseMatrix k .Z 0) (B p), app1_app1, hB p]

/-- the Z-string multiplies every amplitude by the parity sign of the masked bit string -/
def paritySign (w : PWord) (x : Bits) : R := w.foldl (fun s qp => if x qp.1 then -s else s) 1

theorem app1_Z (k : Consts R) (q : Nat) (ψ : State R) (x : Bits) :
    app1 (baseMatrix k .Z 0) q ψ x = (if x q then -1 else 1) * ψ x := by
  cases hx : x q
  · have e0 : x.set q false = x := by rw [← hx]; exact Bits.set_self x q
    simp [app1, hx, baseMatrix, e0]
  · have e1 : x.set q true = x := by rw [← hx]; exact Bits.set_self x q
    simp [app1, hx, baseMatrix, e1]

theorem paritySign_fold (w : PWord) (x : Bits) (s : R) :
    w.foldl (fun s qp => if x qp.1 then -s else s) s = s * paritySign (R := R) w x := by
  unfold paritySign
  induction w generalizing s with
  | nil => simp
  | cons qp w ih =>
    simp only [List.foldl_cons]
    rw [ih, ih (if x qp.1 = true then -1 else 1)]
    by_cases h : x qp.1 <;> simp [h]

theorem paritySign_cons (q : Nat) (p : Pauli) (w : PWord) (x : Bits) :
    paritySign (R := R) ((q, p) :: w) x = (if x q then -1 else 1) * paritySign (R := R) w x := by
  have := paritySign_fold (R := R) w x (if x q then -1 else 1)
  simp only [paritySign, List.foldl_cons] at this ⊢
  by_cases h : x q <;> simp_all

theorem zWord_sign (k : Consts R) (w : PWord) (ψ : State R) (x : Bits) :
    wordOps (fun _ => baseMatrix k .Z 0) w ψ x = paritySign (R := R) w x * ψ x := by
  induction w generalizing ψ with
  | nil => simp [wordOps, paritySign]
  | cons qp w ih =>
    obtain ⟨q, p⟩ := qp
    rw [wordOps_cons, ih, app1_Z, paritySign_cons]
    ring

/-- **frequency route = overlap**: Σₓ (−1)^{|x ∧ mask|} |(B_w ψ)(x)|² = ⟨ψ| P_w |ψ⟩ -/
theorem parity_rule_eq_overlap (k : Consts R) (L : k.Laws) (n : Nat) (B : Pauli → M2 R) (hB : RotOk k B)
    (w : PWord) (hnd : (w.map (·.1)).Nodup) (hlt : ∀ qp ∈ w, qp.1 < n) (ψ : State R) :
    ∑ i ∈ range (2 ^ n), paritySign (R := R) w (bitsOf i) * wt (wordOps B w ψ (bitsOf i))
      = inner n ψ (wordOps (pauliMat k) w ψ) := by
  rw [← meas_basis_identity k L n B hB w hnd hlt ψ ψ]
  unfold inner
  apply Finset.sum_congr rfl
  intro i _
  rw [zWord_sign]
  simp only [wt]; ring

end Tangelo
