import TangeloProofs.Lemmas.SemBasic
/-! Inverse operations at the level of `Op` (C09 `inverse`, reused by C08 deflation). -/
namespace Tangelo
variable {R : Type} [CommRing R]

/-- the inverse of an abstract operation, as `Gate.inverse` denotes it -/
def Op.inv : Op → Op
  | .one .S _ t cs => .one .PHASE (Ang.piQuarter (-2)) t cs
  | .one .T _ t cs => .one .PHASE (Ang.piQuarter (-1)) t cs
  | .one b θ t cs => .one b (-θ) t cs
  | .swap a b cs => .swap a b cs
  | .xx θ a b => .xx (-θ) a b

theorem piq_two_neg : Ang.piQuarter (-2) + Ang.piQuarter (-2) + Ang.pi = 0 := by
  apply Ang.ext' <;> simp [Ang.add_def, Ang.zero_def, Ang.add, Ang.zero, Ang.piQuarter, Ang.pi]
theorem piq_one_neg : Ang.piQuarter (-1) + Ang.piQuarter (-1) + Ang.piQuarter 2 = 0 := by
  apply Ang.ext' <;> simp [Ang.add_def, Ang.zero_def, Ang.add, Ang.zero, Ang.piQuarter]

/-- matrix of the inverse gate times matrix of the gate is the identity -/
theorem base_inverse (k : Consts R) (L : k.Laws) (b : Base) (θ : Ang) :
    (match b with
      | .S => (baseMatrix k .PHASE (Ang.piQuarter (-2))).mul (baseMatrix k .S θ)
      | .T => (baseMatrix k .PHASE (Ang.piQuarter (-1))).mul (baseMatrix k .T θ)
      | b => (baseMatrix k b (-θ)).mul (baseMatrix k b θ)) = M2.one := by
  have hs : k.e (Ang.piQuarter (-2)) * k.e (Ang.piQuarter (-2)) * k.i = 1 := by
    rw [← L.e_pi, ← L.e_add, ← L.e_add, piq_two_neg, L.e_zero]
  have ht : k.e (Ang.piQuarter (-1)) * k.e (Ang.piQuarter (-1)) * k.e (Ang.piQuarter 2) = 1 := by
    rw [← L.e_add, ← L.e_add, piq_one_neg, L.e_zero]
  have hc := L.cos_sq_sub θ
  cases b <;> apply M2.ext' <;> simp only [baseMatrix, M2.mul, M2.one, Consts.sinH, L.cos_neg, L.misin_neg, Ang.neg_neg']
  all_goals first
    | ring1
    | linear_combination L.rsqrt2_sq
    | linear_combination (-1 : R) * L.i_sq
    | linear_combination hs
    | linear_combination ht
    | linear_combination hc
    | linear_combination L.e_neg_mul θ
    | linear_combination L.e_mul_neg θ
    | linear_combination hc - (k.misinH θ * k.misinH θ) * L.i_sq
    | linear_combination hc + (k.misinH θ * k.misinH θ) * L.i_sq
    | linear_combination (k.e (-θ) * k.e θ + 1) * L.e_neg_mul θ
    | skip

end Tangelo

namespace Tangelo
variable {R : Type} [CommRing R]

theorem Bits.swap_swap (x : Bits) (a b : Nat) : (x.swap a b).swap a b = x := by
  funext r
  simp only [Bits.swap]
  grind

theorem all_swap_of_not_mem (cs : List Nat) (x : Bits) (a b : Nat) (ha : a ∉ cs) (hb : b ∉ cs) :
    cs.all (fun c => (x.swap a b) c) = cs.all (fun c => x c) := by
  induction cs with
  | nil => rfl
  | cons c cs ih =>
    have hca : c ≠ a := fun e => ha (by simp [e])
    have hcb : c ≠ b := fun e => hb (by simp [e])
    have ih' := ih (fun e => ha (by simp [e])) (fun e => hb (by simp [e]))
    simp only [List.all_cons, ih']
    simp [Bits.swap, hca, hcb]

theorem ctl_swap_swap (cs : List Nat) (a b : Nat) (ha : a ∉ cs) (hb : b ∉ cs) (ψ : State R) :
    ctl cs (appSwap a b) (ctl cs (appSwap a b) ψ) = ψ := by
  funext x
  by_cases hc : cs.all (fun c => x c) = true
  · simp [ctl, hc, appSwap, all_swap_of_not_mem cs x a b ha hb, Bits.swap_swap]
  · simp [ctl, hc]

theorem Bits.flip_flip (x : Bits) (a : Nat) : (x.flip a).flip a = x := by
  funext r
  by_cases h : r = a <;> simp [Bits.flip, h]

theorem flip2_flip2 (x : Bits) (a b : Nat) : (((x.flip a).flip b).flip a).flip b = x := by
  funext r
  by_cases h : r = a <;> by_cases h' : r = b
  · subst h; subst h'; simp [Bits.flip]
  · subst h
    have : ¬ b = r := fun e => h' e.symm
    simp [Bits.flip, h']
  · subst h'
    have : ¬ a = r := fun e => h e.symm
    simp [Bits.flip, h]
  · simp [Bits.flip, h, h']

/-- XX(−θ) undoes XX(θ) -/
theorem xx_inverse (k : Consts R) (L : k.Laws) (θ : Ang) (a b : Nat) (ψ : State R) :
    appXX k (-θ) a b (appXX k θ a b ψ) = ψ := by
  funext x
  simp only [appXX, L.cos_neg, L.misin_neg, flip2_flip2]
  linear_combination (ψ x) * L.cos_sq_sub θ

theorem Op.inv_sem (k : Consts R) (L : k.Laws) (o : Op) (hwf : o.qubits.Nodup) (ψ : State R) :
    o.inv.sem k (o.sem k ψ) = ψ := by
  cases o with
  | one b θ t cs =>
    have ht : t ∉ cs := by
      simp only [Op.qubits, List.nodup_cons] at hwf; exact hwf.1
    have hb := base_inverse k L b θ
    cases b <;> simp only [Op.inv, Op.sem] <;> rw [ctl_app1_app1 cs _ _ t ht] <;> simp only at hb <;> rw [hb, ctl_app1_one]
  | swap a b cs =>
    simp only [Op.qubits, List.nodup_cons, List.mem_cons, not_or] at hwf
    simp only [Op.inv, Op.sem]
    exact ctl_swap_swap cs a b hwf.1.2 hwf.2.1 ψ
  | xx θ a b =>
    simp only [Op.inv, Op.sem]
    exact xx_inverse k L θ a b ψ

/-- inverse of a list of operations: reversed list of inverses -/
def invOps (ops : List Op) : List Op := (ops.map Op.inv).reverse

theorem semOps_append (k : Consts R) (xs ys : List Op) (ψ : State R) :
    semOps k (xs ++ ys) ψ = semOps k ys (semOps k xs ψ) := by
  simp [semOps, List.foldl_append]

theorem invOps_sem (k : Consts R) (L : k.Laws) (ops : List Op) (hwf : ∀ o ∈ ops, o.qubits.Nodup) (ψ : State R) :
    semOps k (invOps ops) (semOps k ops ψ) = ψ := by
  induction ops generalizing ψ with
  | nil => rfl
  | cons o os ih =>
    have h1 : semOps k (o :: os) ψ = semOps k os (o.sem k ψ) := rfl
    have h2 : invOps (o :: os) = invOps os ++ [o.inv] := by simp [invOps]
    rw [h1, h2, semOps_append, ih (fun o' ho' => hwf o' (by simp [ho']))]
    exact Op.inv_sem k L o (hwf o (by simp)) ψ

end Tangelo
