import TangeloModel.Sim
import TangeloProofs.Lemmas.OpInverse
import Mathlib.Algebra.Star.Basic
import Mathlib.Algebra.BigOperators.Group.Finset.Basic
import Mathlib.Algebra.BigOperators.Ring.Finset
import Mathlib.Tactic.Ring
import Mathlib.Tactic.LinearCombination
/-!
# Every operation of the gate set preserves the total probability

`normSq n ψ = Σ_{i < 2ⁿ} star(ψ xᵢ) · ψ xᵢ` over the basis states of an `n`-qubit register.
For every `Op` whose qubits are distinct and lie inside the register, `normSq n (o.sem k ψ) = normSq n ψ`,
for every register size, every state, over any commutative star ring whose constants satisfy the laws of
`Consts.Laws` and are compatible with conjugation (`Consts.StarLaws`).
-/
namespace Tangelo
open Finset

variable {R : Type} [CommRing R] [StarRing R]

/-- |z|² -/
def wt (z : R) : R := star z * z

def normSq (n : Nat) (ψ : State R) : R := ∑ i ∈ range (2 ^ n), wt (ψ (bitsOf i))

/-- conjugation acts on the constants as on the complex numbers -/
structure Consts.StarLaws (k : Consts R) : Prop where
  star_i : star k.i = -k.i
  star_rsqrt2 : star k.rsqrt2 = k.rsqrt2
  star_half : star k.half = k.half
  star_e : ∀ θ, star (k.e θ) = k.e (-θ)

/-! ## index-level involutions -/

theorem bitsOf_xor_pow (i t : Nat) : bitsOf (i ^^^ 2 ^ t) = (bitsOf i).flip t := by
  funext q
  simp only [bitsOf, Bits.flip, Nat.testBit_xor, Nat.testBit_two_pow]
  by_cases h : q = t
  · subst h; simp
  · have h' : ¬ t = q := fun e => h e.symm
    simp [h, h']

theorem xor_pow_lt (n i t : Nat) (hi : i < 2 ^ n) (ht : t < n) : i ^^^ 2 ^ t < 2 ^ n :=
  Nat.xor_lt_two_pow hi (Nat.pow_lt_pow_right (by decide) ht)

theorem xor_xor_self (i a : Nat) : (i ^^^ a) ^^^ a = i := by
  rw [Nat.xor_assoc, Nat.xor_self, Nat.xor_zero]

/-- re-indexing a sum over the register by an involution of the indices -/
theorem sum_involution (n : Nat) (σ : Nat → Nat) (hσ : ∀ i, i < 2 ^ n → σ i < 2 ^ n) (hinv : ∀ i, i < 2 ^ n → σ (σ i) = i)
    (f : Nat → R) : ∑ i ∈ range (2 ^ n), f (σ i) = ∑ i ∈ range (2 ^ n), f i := by
  apply Finset.sum_nbij' σ σ
  · intro i hi; exact mem_range.mpr (hσ i (mem_range.mp hi))
  · intro i hi; exact mem_range.mpr (hσ i (mem_range.mp hi))
  · intro i hi; exact hinv i (mem_range.mp hi)
  · intro i hi; exact hinv i (mem_range.mp hi)
  · intro i _; rfl

/-- **pairing lemma**: if an index involution σ pairs the basis states so that the summed weight of every
    pair is preserved by a transformation, the total weight is preserved (uses 2·½ = 1) -/
theorem normSq_of_pairs (k : Consts R) (L : k.Laws) (n : Nat) (σ : Nat → Nat)
    (hσ : ∀ i, i < 2 ^ n → σ i < 2 ^ n) (hinv : ∀ i, i < 2 ^ n → σ (σ i) = i) (φ' φ : State R)
    (hp : ∀ i, i < 2 ^ n → wt (φ' (bitsOf i)) + wt (φ' (bitsOf (σ i))) = wt (φ (bitsOf i)) + wt (φ (bitsOf (σ i)))) :
    normSq n φ' = normSq n φ := by
  unfold normSq
  have h1 := sum_involution n σ hσ hinv (fun i => wt (φ' (bitsOf i)))
  have h2 := sum_involution n σ hσ hinv (fun i => wt (φ (bitsOf i)))
  have h3 : ∑ i ∈ range (2 ^ n), (wt (φ' (bitsOf i)) + wt (φ' (bitsOf (σ i))))
      = ∑ i ∈ range (2 ^ n), (wt (φ (bitsOf i)) + wt (φ (bitsOf (σ i)))) :=
    Finset.sum_congr rfl (fun i hi => hp i (mem_range.mp hi))
  rw [sum_add_distrib, sum_add_distrib, h1, h2] at h3
  have two := L.two_half
  linear_combination k.half * h3 - (∑ i ∈ range (2 ^ n), wt (φ' (bitsOf i)) - ∑ i ∈ range (2 ^ n), wt (φ (bitsOf i))) * two

/-! ## 2×2 unitaries -/

/-- M†M = 1 -/
structure M2.Unitary (m : M2 R) : Prop where
  u1 : star m.a * m.a + star m.c * m.c = 1
  u2 : star m.b * m.b + star m.d * m.d = 1
  u3 : star m.a * m.b + star m.c * m.d = 0
  u4 : star m.b * m.a + star m.d * m.c = 0

theorem pair_weight (m : M2 R) (hu : m.Unitary) (p q : R) :
    wt (m.a * p + m.b * q) + wt (m.c * p + m.d * q) = wt p + wt q := by
  simp only [wt, star_add, star_mul']
  linear_combination (star p * p) * hu.u1 + (star q * q) * hu.u2 + (star p * q) * hu.u3 + (star q * p) * hu.u4

theorem flip_set (x : Bits) (t : Nat) : (x.flip t) = x.set t (!(x t)) := by
  funext q; simp only [Bits.flip, Bits.set]; split
  · rename_i h; rw [h]
  · rfl

theorem app1_pair (m : M2 R) (hu : m.Unitary) (t : Nat) (ψ : State R) (x : Bits) :
    wt (app1 m t ψ x) + wt (app1 m t ψ (x.flip t)) = wt (ψ x) + wt (ψ (x.flip t)) := by
  have hf : (x.flip t) t = !(x t) := by simp [Bits.flip]
  have s0 : (x.flip t).set t false = x.set t false := by funext q; simp only [Bits.flip, Bits.set]; split <;> rfl
  have s1 : (x.flip t).set t true = x.set t true := by funext q; simp only [Bits.flip, Bits.set]; split <;> rfl
  cases hx : x t
  · have e0 : x.set t false = x := by rw [← hx]; exact Bits.set_self x t
    have e1 : x.set t true = x.flip t := by rw [flip_set, hx]; rfl
    simp only [app1, hx, hf, s0, s1, e0, e1, Bool.not_false, Bool.false_eq_true, if_false, if_true]
    exact pair_weight m hu (ψ x) (ψ (x.flip t))
  · have e1 : x.set t true = x := by rw [← hx]; exact Bits.set_self x t
    have e0 : x.set t false = x.flip t := by rw [flip_set, hx]; rfl
    simp only [app1, hx, hf, s0, s1, e0, e1, Bool.not_true, Bool.false_eq_true, if_false, if_true]
    have := pair_weight m hu (ψ (x.flip t)) (ψ x)
    linear_combination this

theorem all_flip_of_not_mem (cs : List Nat) (x : Bits) (t : Nat) (h : t ∉ cs) :
    cs.all (fun c => (x.flip t) c) = cs.all (fun c => x c) := by
  rw [flip_set]; exact all_set_of_not_mem cs x t _ h

/-- a (multi-)controlled one-qubit unitary preserves the total probability -/
theorem ctl_app1_isometry (k : Consts R) (L : k.Laws) (n : Nat) (m : M2 R) (hu : m.Unitary) (t : Nat) (cs : List Nat)
    (ht : t < n) (htc : t ∉ cs) (ψ : State R) : normSq n (ctl cs (app1 m t) ψ) = normSq n ψ := by
  apply normSq_of_pairs k L n (fun i => i ^^^ 2 ^ t) (fun i hi => xor_pow_lt n i t hi ht) (fun i _ => xor_xor_self i _)
  intro i _
  simp only [bitsOf_xor_pow, ctl, all_flip_of_not_mem cs (bitsOf i) t htc]
  split
  · exact app1_pair m hu t ψ (bitsOf i)
  · rfl

/-! ## the matrices of the gate set are unitary -/

theorem cos_star (k : Consts R) (S : k.StarLaws) (θ : Ang) : star (k.cosH θ) = k.cosH θ := by
  simp only [Consts.cosH, star_mul', star_add, S.star_half, S.star_e, Ang.neg_neg']; ring

theorem misin_star (k : Consts R) (S : k.StarLaws) (θ : Ang) : star (k.misinH θ) = -k.misinH θ := by
  simp only [Consts.misinH, star_mul', star_add, star_neg, S.star_half, S.star_e, Ang.neg_neg']; ring

theorem base_unitary (k : Consts R) (L : k.Laws) (S : k.StarLaws) (b : Base) (θ : Ang) : (baseMatrix k b θ).Unitary := by
  have hc := L.cos_sq_sub θ
  have hee := L.e_mul_neg θ
  have hee' := L.e_neg_mul θ
  cases b
  case H =>
    constructor <;> simp only [baseMatrix, star_neg, S.star_rsqrt2] <;> first | linear_combination L.rsqrt2_sq | ring
  case X => constructor <;> simp [baseMatrix]
  case Y =>
    constructor <;> simp only [baseMatrix, star_neg, star_zero, S.star_i] <;> first | linear_combination (-1 : R) * L.i_sq | ring
  case Z => constructor <;> simp [baseMatrix]
  case S =>
    constructor <;> simp only [baseMatrix, star_one, star_zero, S.star_i] <;> first | linear_combination (-1 : R) * L.i_sq | ring
  case T =>
    have h := L.e_neg_mul (Ang.piQuarter 2)
    constructor <;> simp only [baseMatrix, star_one, star_zero, S.star_e] <;> first | linear_combination h | ring
  case RX =>
    constructor <;> simp only [baseMatrix, cos_star k S, misin_star k S] <;> first | linear_combination hc | ring
  case RY =>
    have hs : star (k.sinH θ) = k.sinH θ := by
      simp only [Consts.sinH, star_mul', S.star_i, misin_star k S]; ring
    have hsq : k.cosH θ * k.cosH θ + k.sinH θ * k.sinH θ = 1 := by
      simp only [Consts.sinH]; linear_combination hc + (k.misinH θ * k.misinH θ) * L.i_sq
    constructor <;> simp only [baseMatrix, star_neg, cos_star k S, hs] <;> first | linear_combination hsq | ring
  case RZ =>
    constructor <;> simp only [baseMatrix, star_zero, S.star_e, Ang.neg_neg'] <;>
      first | linear_combination hee | linear_combination hee' | ring
  case PHASE =>
    constructor <;> simp only [baseMatrix, star_one, star_zero, star_mul', S.star_e] <;>
      first | linear_combination (k.e (-θ) * k.e θ + 1) * hee' | ring

/-! ## swaps and the XX gate -/

/-- index of the basis state with bits `a` and `b` exchanged -/
def swapIdx (a b i : Nat) : Nat := if i.testBit a = i.testBit b then i else (i ^^^ 2 ^ a) ^^^ 2 ^ b

theorem bitsOf_swapIdx (a b i : Nat) (hab : a ≠ b) : bitsOf (swapIdx a b i) = (bitsOf i).swap a b := by
  funext q
  unfold swapIdx
  by_cases h : i.testBit a = i.testBit b
  · simp only [h, if_true, bitsOf, Bits.swap]
    by_cases hqa : q = a
    · subst hqa; simp [h]
    · by_cases hqb : q = b
      · subst hqb; simp [hqa, h]
      · simp [hqa, hqb]
  · simp only [h, if_false, bitsOf, Bits.swap, Nat.testBit_xor, Nat.testBit_two_pow]
    by_cases hqa : q = a
    · subst hqa
      have : ¬ b = q := fun e => hab e.symm
      simp only [this, decide_false, Bool.xor_false, if_true]
      cases h1 : i.testBit q <;> cases h2 : i.testBit b <;> simp_all
    · by_cases hqb : q = b
      · subst hqb
        have : ¬ a = q := hab
        simp only [this, hqa, decide_false, Bool.xor_false, if_false, if_true]
        cases h1 : i.testBit a <;> cases h2 : i.testBit q <;> simp_all
      · have h1 : ¬ a = q := fun e => hqa e.symm
        have h2 : ¬ b = q := fun e => hqb e.symm
        simp [hqa, hqb, h1, h2]

theorem swapIdx_lt (n a b i : Nat) (hi : i < 2 ^ n) (ha : a < n) (hb : b < n) : swapIdx a b i < 2 ^ n := by
  unfold swapIdx
  split
  · exact hi
  · exact xor_pow_lt n _ b (xor_pow_lt n i a hi ha) hb

theorem bitsOf_injective (i j : Nat) (h : bitsOf i = bitsOf j) : i = j :=
  Nat.eq_of_testBit_eq (fun q => congrFun h q)

theorem swapIdx_invol (a b i : Nat) (hab : a ≠ b) : swapIdx a b (swapIdx a b i) = i := by
  apply bitsOf_injective
  rw [bitsOf_swapIdx a b _ hab, bitsOf_swapIdx a b _ hab, Bits.swap_swap]

/-- a permutation of the basis states given by an index involution preserves the total probability -/
theorem normSq_perm (n : Nat) (σ : Nat → Nat) (hσ : ∀ i, i < 2 ^ n → σ i < 2 ^ n) (hinv : ∀ i, i < 2 ^ n → σ (σ i) = i)
    (φ' φ : State R) (hp : ∀ i, i < 2 ^ n → φ' (bitsOf i) = φ (bitsOf (σ i))) : normSq n φ' = normSq n φ := by
  unfold normSq
  rw [← sum_involution n σ hσ hinv (fun i => wt (φ (bitsOf i)))]
  exact Finset.sum_congr rfl (fun i hi => by rw [hp i (mem_range.mp hi)])

/-- index map of a controlled swap -/
def cswapIdx (cs : List Nat) (a b i : Nat) : Nat := if cs.all (fun c => i.testBit c) then swapIdx a b i else i

theorem ctl_swap_isometry (n : Nat) (a b : Nat) (cs : List Nat) (hab : a ≠ b) (ha : a < n) (hb : b < n)
    (hac : a ∉ cs) (hbc : b ∉ cs) (ψ : State R) : normSq n (ctl cs (appSwap a b) ψ) = normSq n ψ := by
  apply normSq_perm n (cswapIdx cs a b)
  · intro i hi; unfold cswapIdx; split
    · exact swapIdx_lt n a b i hi ha hb
    · exact hi
  · intro i _
    unfold cswapIdx
    by_cases h : cs.all (fun c => i.testBit c) = true
    · have h' : cs.all (fun c => (swapIdx a b i).testBit c) = true := by
        have e := all_swap_of_not_mem cs (bitsOf i) a b hac hbc
        rw [← bitsOf_swapIdx a b i hab] at e
        have e2 : (cs.all fun c => bitsOf (swapIdx a b i) c) = cs.all (fun c => (swapIdx a b i).testBit c) := rfl
        have e3 : (cs.all fun c => bitsOf i c) = cs.all (fun c => i.testBit c) := rfl
        rw [← e2, e, e3]; exact h
      simp only [h, if_true, h', swapIdx_invol a b i hab]
    · simp [h]
  · intro i _
    unfold cswapIdx
    simp only [ctl, appSwap]
    have e : (cs.all fun c => bitsOf i c) = cs.all (fun c => i.testBit c) := rfl
    rw [e]
    split
    · rw [bitsOf_swapIdx a b i hab]
    · rfl

theorem xx_isometry (k : Consts R) (L : k.Laws) (S : k.StarLaws) (n : Nat) (θ : Ang) (a b : Nat) (hab : a ≠ b)
    (ha : a < n) (hb : b < n) (ψ : State R) : normSq n (appXX k θ a b ψ) = normSq n ψ := by
  apply normSq_of_pairs k L n (fun i => (i ^^^ 2 ^ a) ^^^ 2 ^ b)
    (fun i hi => xor_pow_lt n _ b (xor_pow_lt n i a hi ha) hb)
    (fun i _ => by
      show ((i ^^^ 2 ^ a ^^^ 2 ^ b) ^^^ 2 ^ a) ^^^ 2 ^ b = i
      have : (i ^^^ 2 ^ a ^^^ 2 ^ b) ^^^ 2 ^ a = i ^^^ 2 ^ b := by
        rw [Nat.xor_assoc i, Nat.xor_comm (2 ^ a) (2 ^ b), ← Nat.xor_assoc i, xor_xor_self]
      rw [this, xor_xor_self])
  intro i _
  simp only [bitsOf_xor_pow, appXX]
  have hff : ((((bitsOf i).flip a).flip b).flip a).flip b = bitsOf i := by
    funext q; simp only [Bits.flip]
    by_cases h1 : q = a <;> by_cases h2 : q = b <;> simp_all
  rw [hff]
  have hc := L.cos_sq_sub θ
  simp only [wt, star_add, star_mul', cos_star k S, misin_star k S]
  linear_combination (star (ψ (bitsOf i)) * ψ (bitsOf i) + star (ψ (((bitsOf i).flip a).flip b)) * ψ (((bitsOf i).flip a).flip b)) * hc

/-! ## every operation, every circuit -/

/-- the qubits of an operation are distinct and inside the register -/
def Op.inReg (n : Nat) (o : Op) : Prop := o.qubits.Nodup ∧ ∀ q ∈ o.qubits, q < n

theorem Op.isometry (k : Consts R) (L : k.Laws) (S : k.StarLaws) (n : Nat) (o : Op) (h : o.inReg n) (ψ : State R) :
    normSq n (o.sem k ψ) = normSq n ψ := by
  obtain ⟨hnd, hlt⟩ := h
  cases o with
  | one b θ t cs =>
    simp only [Op.qubits, List.nodup_cons] at hnd
    exact ctl_app1_isometry k L n _ (base_unitary k L S b θ) t cs (hlt t (by simp [Op.qubits])) hnd.1 ψ
  | swap a b cs =>
    simp only [Op.qubits, List.nodup_cons, List.mem_cons, not_or] at hnd
    exact ctl_swap_isometry n a b cs hnd.1.1 (hlt a (by simp [Op.qubits])) (hlt b (by simp [Op.qubits])) hnd.1.2 hnd.2.1 ψ
  | xx θ a b =>
    simp only [Op.qubits, List.nodup_cons, List.mem_cons, List.mem_singleton, List.not_mem_nil, or_false] at hnd
    exact xx_isometry k L S n θ a b hnd.1 (hlt a (by simp [Op.qubits])) (hlt b (by simp [Op.qubits])) ψ

theorem semOps_isometry (k : Consts R) (L : k.Laws) (S : k.StarLaws) (n : Nat) (ops : List Op)
    (h : ∀ o ∈ ops, o.inReg n) (ψ : State R) : normSq n (semOps k ops ψ) = normSq n ψ := by
  induction ops generalizing ψ with
  | nil => rfl
  | cons o os ih =>
    have : semOps k (o :: os) ψ = semOps k os (o.sem k ψ) := rfl
    rw [this, ih (fun o' ho' => h o' (List.mem_cons_of_mem _ ho')), Op.isometry k L S n o (h o List.mem_cons_self)]

end Tangelo
