import TangeloModel.Store
/-! Helper lemmas for C11: the metadata invariant and its preservation. Core Lean only. -/
namespace Tangelo
open Circuit

theorem lookupD_bump {α : Type} [DecidableEq α] (d : List (α × Nat)) (k k' : α) :
    lookupD (bump d k) k' = lookupD d k' + (if k = k' then 1 else 0) := by
  induction d with
  | nil => simp [bump, lookupD]
  | cons p rest ih =>
    obtain ⟨a, n⟩ := p
    simp only [bump]
    split
    · rename_i h; subst h
      simp only [lookupD]
      split <;> simp_all
    · rename_i h
      simp only [lookupD]
      split
      · rename_i h2; subst h2
        have : ¬ k = a := fun e => h e.symm
        simp [this]
      · exact ih

theorem mem_setInsert (s : List Nat) (q x : Nat) : x ∈ setInsert s q ↔ x = q ∨ x ∈ s := by
  induction s with
  | nil => simp [setInsert]
  | cons y ys ih =>
    simp only [setInsert]
    split
    · simp
    · split
      · rename_i h1 h2; subst h2; simp
      · simp [ih]; grind

theorem mem_foldl_setInsert (l s : List Nat) (x : Nat) : x ∈ l.foldl setInsert s ↔ x ∈ l ∨ x ∈ s := by
  induction l generalizing s with
  | nil => simp
  | cons a as ih => simp [ih, mem_setInsert]; grind

/-- inserting into a strictly increasing list keeps it strictly increasing (the list stays a set) -/
theorem setInsert_sorted (s : List Nat) (q : Nat) (hs : s.Pairwise (· < ·)) : (setInsert s q).Pairwise (· < ·) := by
  induction s with
  | nil => simp [setInsert]
  | cons y ys ih =>
    have hp := List.pairwise_cons.mp hs
    simp only [setInsert]
    split
    · rename_i hq
      refine List.pairwise_cons.mpr ⟨?_, hs⟩
      intro a ha
      rcases List.mem_cons.mp ha with e | e
      · omega
      · have := hp.1 a e; omega
    · split
      · exact hs
      · rename_i h1 h2
        refine List.pairwise_cons.mpr ⟨?_, ih hp.2⟩
        intro a ha
        rcases (mem_setInsert ys q a).mp ha with e | e
        · omega
        · exact hp.1 a e

theorem foldl_setInsert_sorted (l s : List Nat) (hs : s.Pairwise (· < ·)) : (l.foldl setInsert s).Pairwise (· < ·) := by
  induction l generalizing s with
  | nil => simpa
  | cons a as ih => exact ih _ (setInsert_sorted s a hs)

theorem range_sorted (n : Nat) : (List.range n).Pairwise (· < ·) := by
  simpa using List.pairwise_lt_range (n := n)

/-- the metadata invariant of a circuit -/
structure Circuit.Inv (c : Circuit) : Prop where
  sorted : c.indices.Pairwise (· < ·)
  counts : ∀ nm : String, lookupD c.counts nm = c.gates.countP (fun g => g.name == nm)
  nq : ∀ k : Nat, lookupD c.nqCounts k = c.gates.countP (fun g => g.qubits.length == k)
  varLt : ∀ i ∈ c.varIdx, i < c.gates.length
  var : c.varGates = c.gates.filter (fun g => g.isVar)
  used : ∀ g ∈ c.gates, ∀ q ∈ g.qubits, q ∈ c.indices

theorem Circuit.inv_empty (n : Option Nat) : (Circuit.empty n).Inv := by
  constructor
  · simp only [Circuit.empty]
    split
    · exact range_sorted _
    · simp
  all_goals simp [Circuit.empty, lookupD, Circuit.varGates]

theorem filterMap_getElem?_append (idx : List Nat) (gs : List Gate) (g : Gate)
    (h : ∀ i ∈ idx, i < gs.length) :
    idx.filterMap (fun i => (gs ++ [g])[i]?) = idx.filterMap (fun i => gs[i]?) := by
  induction idx with
  | nil => rfl
  | cons i is ih =>
    have hi := h i (by simp)
    have ih' := ih (fun j hj => h j (by simp [hj]))
    simp only [List.filterMap_cons, List.getElem?_append_left hi, ih']

theorem Circuit.inv_addGate (c c' : Circuit) (g : Gate) (hc : c.Inv) (h : c.addGate g = .ok c') : c'.Inv := by
  unfold Circuit.addGate at h
  split at h
  · cases h
  · injection h with h; subst h
    unfold Circuit.addGateCore
    constructor
    · exact foldl_setInsert_sorted _ _ hc.sorted
    · intro nm
      simp only [lookupD_bump, hc.counts nm, List.countP_append, List.countP_cons, List.countP_nil]
      by_cases hn : g.name = nm <;> simp [hn]
    · intro k
      simp only [lookupD_bump, hc.nq k, List.countP_append, List.countP_cons, List.countP_nil]
      by_cases hn : g.qubits.length = k <;> simp [hn]
    · intro i hi
      simp only [List.length_append, List.length_cons, List.length_nil]
      split at hi
      · rcases List.mem_append.mp hi with h1 | h1
        · have := hc.varLt i h1; omega
        · simp at h1; omega
      · have := hc.varLt i hi; omega
    · simp only [Circuit.varGates]
      split
      · rename_i hv
        rw [List.filterMap_append, filterMap_getElem?_append _ _ _ hc.varLt]
        have := hc.var
        simp only [Circuit.varGates] at this
        rw [this]
        simp [List.filter_append, hv]
      · rename_i hv
        rw [filterMap_getElem?_append _ _ _ hc.varLt]
        have := hc.var
        simp only [Circuit.varGates] at this
        rw [this]
        simp [List.filter_append, hv]
    · intro g' hg' q hq
      simp only [mem_foldl_setInsert]
      rcases List.mem_append.mp hg' with h1 | h1
      · right; exact hc.used g' h1 q hq
      · simp at h1; subst h1; left; exact hq

theorem Circuit.inv_addGates (gs : List Gate) (c c' : Circuit) (hc : c.Inv) (h : c.addGates gs = .ok c') : c'.Inv := by
  induction gs generalizing c with
  | nil => simp [Circuit.addGates] at h; subst h; exact hc
  | cons g gs ih =>
    simp only [Circuit.addGates] at h
    split at h
    · cases h
    · rename_i c1 h1
      exact ih c1 (Circuit.inv_addGate c c1 g hc h1) h

theorem Circuit.inv_ofGates (gs : List Gate) (n : Option Nat) (c : Circuit) (h : Circuit.ofGates gs n = .ok c) : c.Inv :=
  Circuit.inv_addGates gs _ c (Circuit.inv_empty n) h

/-- the gate list of a successfully built circuit is the list it was built from -/
theorem Circuit.gates_addGates (gs : List Gate) (c c' : Circuit) (h : c.addGates gs = .ok c') : c'.gates = c.gates ++ gs := by
  induction gs generalizing c with
  | nil => simp [Circuit.addGates] at h; subst h; simp
  | cons g gs ih =>
    simp only [Circuit.addGates] at h
    split at h
    · cases h
    · rename_i c1 h1
      rw [ih c1 h]
      unfold Circuit.addGate at h1
      split at h1
      · cases h1
      · injection h1 with h1; subst h1; simp [Circuit.addGateCore]

theorem Circuit.gates_ofGates (gs : List Gate) (n : Option Nat) (c : Circuit) (h : Circuit.ofGates gs n = .ok c) : c.gates = gs := by
  have := Circuit.gates_addGates gs _ c h
  simpa [Circuit.empty] using this

theorem le_getLast_of_sorted (l : List Nat) (hs : l.Pairwise (· < ·)) (hne : l ≠ []) (q : Nat) (hq : q ∈ l) :
    q ≤ l.getLast hne := by
  induction l with
  | nil => exact absurd rfl hne
  | cons x xs ih =>
    cases xs with
    | nil => simp at hq; simp [hq]
    | cons y ys =>
      have hp := List.pairwise_cons.mp hs
      rw [List.getLast_cons (List.cons_ne_nil y ys)]
      rcases List.mem_cons.mp hq with e | e
      · subst e
        have hy := hp.1 ((y :: ys).getLast (List.cons_ne_nil y ys)) (List.getLast_mem _)
        omega
      · exact ih hp.2 (List.cons_ne_nil y ys) e


theorem mem_indices_addGates (gs : List Gate) (c c' : Circuit) (h : c.addGates gs = .ok c') (q : Nat) :
    q ∈ c'.indices ↔ q ∈ c.indices ∨ ∃ g ∈ gs, q ∈ g.qubits := by
  induction gs generalizing c with
  | nil => simp [Circuit.addGates] at h; subst h; simp
  | cons g gs ih =>
    simp only [Circuit.addGates] at h
    split at h
    · cases h
    · rename_i c1 h1
      rw [ih c1 h]
      unfold Circuit.addGate at h1
      split at h1
      · cases h1
      · injection h1 with h1; subst h1
        simp only [Circuit.addGateCore, mem_foldl_setInsert, List.mem_cons, exists_eq_or_imp]
        grind

/-- with a fixed register, every accepted gate stays inside it -/
theorem addGates_fixed_bound (gs : List Gate) (c c' : Circuit) (n : Nat) (hf : c.fixed = some (n + 1))
    (h : c.addGates gs = .ok c') : c'.fixed = some (n + 1) ∧ ∀ g ∈ gs, ∀ q ∈ g.qubits, q < n + 1 := by
  induction gs generalizing c with
  | nil => simp [Circuit.addGates] at h; subst h; simp [hf]
  | cons g gs ih =>
    simp only [Circuit.addGates] at h
    split at h
    · cases h
    · rename_i c1 h1
      unfold Circuit.addGate at h1
      split at h1
      · cases h1
      · rename_i hbad
        injection h1 with h1; subst h1
        have hf1 : (c.addGateCore g).fixed = some (n + 1) := by simp [Circuit.addGateCore, hf]
        obtain ⟨h2, h3⟩ := ih _ hf1 h
        refine ⟨h2, ?_⟩
        intro g' hg' q hq
        rcases List.mem_cons.mp hg' with e | e
        · subst e
          simp only [Circuit.addGateBad, hf, Circuit.truthy] at hbad
          simp at hbad
          have := hbad q hq
          omega
        · exact h3 g' e q hq

theorem width_of_sorted (l : List Nat) (hs : l.Pairwise (· < ·)) (w : Nat) (hw : w ∈ l) (hmax : ∀ q ∈ l, q ≤ w) :
    l.getLast? = some w := by
  have hne : l ≠ [] := by intro e; simp [e] at hw
  rw [List.getLast?_eq_some_getLast hne]
  have h1 := le_getLast_of_sorted l hs hne w hw
  have h2 := hmax _ (List.getLast_mem hne)
  congr 1; omega


end Tangelo

namespace Tangelo
open Circuit

theorem mapIdx_ok (m : List (Nat × Nat)) (q q' : Nat) (h : mapIdx m q = .ok q') : q' ∈ m.map (·.2) := by
  unfold mapIdx at h
  split at h
  · rename_i p hp
    injection h with h; subst h
    exact List.mem_map.mpr ⟨p, List.mem_of_find?_eq_some hp, rfl⟩
  · cases h

theorem mapList_ok (m : List (Nat × Nat)) (qs qs' : List Nat) (h : mapList m qs = .ok qs') :
    qs'.length = qs.length ∧ ∀ q' ∈ qs', q' ∈ m.map (·.2) := by
  induction qs generalizing qs' with
  | nil => simp [mapList] at h; subst h; simp
  | cons q qs ih =>
    simp only [mapList, bind, Except.bind] at h
    split at h
    · cases h
    · rename_i a ha
      split at h
      · cases h
      · rename_i b hb
        simp only [pure, Except.pure] at h
        injection h with h; subst h
        obtain ⟨h1, h2⟩ := ih b hb
        refine ⟨by simp [h1], ?_⟩
        intro q' hq'
        rcases List.mem_cons.mp hq' with e | e
        · subst e; exact mapIdx_ok m q _ ha
        · exact h2 q' e

theorem remapGate_ok (m : List (Nat × Nat)) (g g' : Gate) (h : remapGate m g = .ok g') :
    g'.name = g.name ∧ g'.isVar = g.isVar ∧ g'.qubits.length = g.qubits.length ∧ ∀ q' ∈ g'.qubits, q' ∈ m.map (·.2) := by
  unfold remapGate at h
  simp only [bind, Except.bind] at h
  split at h
  · cases h
  · rename_i t ht
    obtain ⟨ht1, ht2⟩ := mapList_ok m _ _ ht
    split at h
    · rename_i c cs hc
      split at h
      · cases h
      · rename_i c' hc'
        simp only [pure, Except.pure] at h
        injection h with h; subst h
        obtain ⟨hc1, hc2⟩ := mapList_ok m _ _ hc'
        refine ⟨rfl, rfl, ?_, ?_⟩
        · simp [Gate.qubits, hc, ht1, hc1]
        · intro q' hq'
          simp only [Gate.qubits, Option.getD_some, List.mem_append] at hq'
          rcases hq' with e | e
          · exact ht2 q' e
          · exact hc2 q' e
    · rename_i hnc
      simp only [pure, Except.pure] at h
      injection h with h; subst h
      refine ⟨rfl, rfl, ?_, ?_⟩
      · simp [Gate.qubits, ht1]
      · intro q' hq'
        simp only [Gate.qubits, List.mem_append] at hq'
        rcases hq' with e | e
        · exact ht2 q' e
        · -- the control list is `none` or `[]` in this branch
          cases hctl : g.control with
          | none => simp [hctl] at e
          | some l =>
            cases l with
            | nil => simp [hctl] at e
            | cons c cs => exact absurd hctl (hnc c cs)

/-- the total function that `remapGates` applies pointwise when it succeeds -/
def remapF (m : List (Nat × Nat)) (g : Gate) : Gate :=
  match remapGate m g with
  | .ok g' => g'
  | .error _ => g

theorem remapGates_ok (m : List (Nat × Nat)) (gs gs' : List Gate) (h : remapGates m gs = .ok gs') :
    gs' = gs.map (remapF m) ∧ ∀ g ∈ gs, ∃ g', remapGate m g = .ok g' := by
  induction gs generalizing gs' with
  | nil => simp [remapGates] at h; subst h; simp
  | cons g gs ih =>
    simp only [remapGates, bind, Except.bind] at h
    split at h
    · cases h
    · rename_i a ha
      split at h
      · cases h
      · rename_i b hb
        simp only [pure, Except.pure] at h
        injection h with h; subst h
        obtain ⟨h1, h2⟩ := ih b hb
        constructor
        · simp [remapF, ha, h1]
        · intro g0 hg0
          rcases List.mem_cons.mp hg0 with e | e
          · subst e; exact ⟨a, ha⟩
          · exact h2 g0 e

/-- a successful in-place remap keeps the invariant, for any new index set that contains the image -/
theorem Circuit.inv_remap (c : Circuit) (m : List (Nat × Nat)) (gs' : List Gate) (idx : List Nat)
    (hc : c.Inv) (h : remapGates m c.gates = .ok gs') (hidx : ∀ q ∈ m.map (·.2), q ∈ idx)
    (hsorted : idx.Pairwise (· < ·)) :
    ({ c with gates := gs', indices := idx } : Circuit).Inv := by
  obtain ⟨hmap, hall⟩ := remapGates_ok m _ _ h
  have hf : ∀ g ∈ c.gates, (remapF m g).name = g.name ∧ (remapF m g).isVar = g.isVar ∧
      (remapF m g).qubits.length = g.qubits.length ∧ ∀ q' ∈ (remapF m g).qubits, q' ∈ m.map (·.2) := by
    intro g hg
    obtain ⟨g', hg'⟩ := hall g hg
    have := remapGate_ok m g g' hg'
    simpa [remapF, hg'] using this
  subst hmap
  constructor
  · exact hsorted
  · intro nm
    simp only
    rw [hc.counts nm, List.countP_map]
    apply List.countP_congr
    intro g hg
    simp [(hf g hg).1]
  · intro k
    simp only
    rw [hc.nq k, List.countP_map]
    apply List.countP_congr
    intro g hg
    simp [(hf g hg).2.2.1]
  · intro i hi
    simpa using hc.varLt i hi
  · have hv := hc.var
    simp only [Circuit.varGates] at hv ⊢
    have e1 : c.varIdx.filterMap (fun i => (c.gates.map (remapF m))[i]?) = (c.varIdx.filterMap (fun i => c.gates[i]?)).map (remapF m) := by
      rw [List.map_filterMap]
      congr 1
      funext i
      simp [List.getElem?_map]
    rw [e1, hv, List.filter_map]
    congr 1
    apply List.filter_congr
    intro g hg
    simp [(hf g hg).2.1]
  · intro g' hg' q hq
    simp only at hg'
    obtain ⟨g, hg, rfl⟩ := List.mem_map.mp hg'
    exact hidx q ((hf g hg).2.2.2 q hq)

end Tangelo
