import TangeloModel.Sim
import TangeloProofs.Lemmas.SemBasic
import TangeloProofs.CycRing
/-! The array simulator of the model driver refines the functional semantics `semOps`. -/
namespace Tangelo

/-- the bit string with everything above the register cleared -/
def trunc (n : Nat) (x : Bits) : Bits := fun q => if q < n then x q else false

theorem toIdx_succ (n : Nat) (x : Bits) : toIdx (n + 1) x = if x n then toIdx n x + 2 ^ n else toIdx n x := by
  simp [toIdx, List.range_succ, List.foldl_append]

theorem toIdx_lt (n : Nat) (x : Bits) : toIdx n x < 2 ^ n := by
  induction n with
  | zero => simp [toIdx]
  | succ n ih =>
    rw [toIdx_succ]
    split <;> (rw [Nat.pow_succ]; omega)

theorem testBit_toIdx (n : Nat) (x : Bits) (q : Nat) : (toIdx n x).testBit q = (if q < n then x q else false) := by
  induction n with
  | zero => simp [toIdx]
  | succ n ih =>
    rw [toIdx_succ]
    by_cases hq : q < n
    · have hq' : q < n + 1 := by omega
      simp only [hq', if_true]
      split
      · rw [Nat.add_comm, Nat.testBit_two_pow_add_gt hq, ih]; simp [hq]
      · rw [ih]; simp [hq]
    · by_cases he : q = n
      · subst he
        simp only [Nat.lt_succ_self, if_true]
        split
        · rename_i hx
          rw [Nat.add_comm, Nat.testBit_two_pow_add_eq, Nat.testBit_lt_two_pow (toIdx_lt q x)]; simp [hx]
        · rename_i hx
          rw [Nat.testBit_lt_two_pow (toIdx_lt q x)]; simp at hx; simp [hx]
      · have hq' : ¬ q < n + 1 := by omega
        simp only [hq', if_false]
        have hlt : toIdx (n + 1) x < 2 ^ q := by
          have h1 := toIdx_lt (n + 1) x
          have h2 : 2 ^ (n + 1) ≤ 2 ^ q := Nat.pow_le_pow_right (by omega) (by omega)
          omega
        rw [← toIdx_succ]
        exact Nat.testBit_lt_two_pow hlt

theorem bitsOf_toIdx (n : Nat) (x : Bits) : bitsOf (toIdx n x) = trunc n x := by
  funext q; simp [bitsOf, trunc, testBit_toIdx]

/-- reading a tabulated state back gives the state on the truncated bit string -/
theorem lookup_tabulate (n : Nat) (ψ : State Cyc) (x : Bits) : (tabulate n ψ).lookup n x = ψ (trunc n x) := by
  simp only [SV.lookup, tabulate]
  have h := toIdx_lt n x
  rw [Array.getD_eq_getD_getElem?, Array.getElem?_ofFn]
  simp [h, bitsOf_toIdx]

theorem trunc_bitsOf (n idx : Nat) (h : idx < 2 ^ n) : trunc n (bitsOf idx) = bitsOf idx := by
  funext q
  simp only [trunc, bitsOf]
  split
  · rfl
  · rename_i hq
    have : idx < 2 ^ q := Nat.lt_of_lt_of_le h (Nat.pow_le_pow_right (by omega) (by omega))
    rw [Nat.testBit_lt_two_pow this]

theorem tabulate_trunc (n : Nat) (φ : State Cyc) : tabulate n (fun x => φ (trunc n x)) = tabulate n φ := by
  simp only [tabulate]
  congr 1
  funext idx
  rw [trunc_bitsOf n idx.val idx.isLt]


section
variable {R : Type} [CommRing R]

theorem trunc_set (n : Nat) (x : Bits) (t : Nat) (b : Bool) (ht : t < n) : trunc n (x.set t b) = (trunc n x).set t b := by
  funext q
  simp only [trunc, Bits.set]
  by_cases hq : q = t
  · subst hq; simp [ht]
  · simp [hq]

theorem trunc_flip (n : Nat) (x : Bits) (t : Nat) (ht : t < n) : trunc n (x.flip t) = (trunc n x).flip t := by
  funext q
  simp only [trunc, Bits.flip]
  by_cases hq : q = t
  · subst hq; simp [ht]
  · simp [hq]

theorem trunc_swap (n : Nat) (x : Bits) (a b : Nat) (ha : a < n) (hb : b < n) : trunc n (x.swap a b) = (trunc n x).swap a b := by
  funext q
  simp only [trunc, Bits.swap]
  by_cases h1 : q = a
  · subst h1; simp [ha, hb]
  · by_cases h2 : q = b
    · subst h2; simp [h1, ha, hb]
    · simp [h1, h2]

theorem trunc_all (n : Nat) (x : Bits) (cs : List Nat) (h : ∀ c ∈ cs, c < n) :
    cs.all (fun c => trunc n x c) = cs.all (fun c => x c) := by
  induction cs with
  | nil => rfl
  | cons c rest ih =>
    have hc : c < n := h c (by simp)
    simp only [List.all_cons, ih (fun c' hc' => h c' (by simp [hc']))]
    simp [trunc, hc]

/-- an operation inside the register does not look above it -/
theorem Op.sem_trunc (k : Consts R) (n : Nat) (o : Op) (h : ∀ q ∈ o.qubits, q < n) (ψ : State R) :
    o.sem k (fun x => ψ (trunc n x)) = fun x => o.sem k ψ (trunc n x) := by
  funext x
  cases o with
  | one b θ t cs =>
    have ht : t < n := h t (by simp [Op.qubits])
    have hcs : ∀ c ∈ cs, c < n := fun c hc => h c (by simp [Op.qubits, hc])
    simp only [Op.sem, ctl, app1, trunc_all n x cs hcs, trunc_set n x t _ ht]
    have : trunc n x t = x t := by simp [trunc, ht]
    rw [this]
  | swap a b cs =>
    have ha : a < n := h a (by simp [Op.qubits])
    have hb : b < n := h b (by simp [Op.qubits])
    have hcs : ∀ c ∈ cs, c < n := fun c hc => h c (by simp [Op.qubits, hc])
    simp only [Op.sem, ctl, appSwap, trunc_all n x cs hcs, trunc_swap n x a b ha hb]
  | xx θ a b =>
    have ha : a < n := h a (by simp [Op.qubits])
    have hb : b < n := h b (by simp [Op.qubits])
    simp only [Op.sem, appXX, trunc_flip n _ b hb, trunc_flip n x a ha]
end

/-- one step of the executable simulator is the tabulation of the specified operation -/
theorem stepOp_tabulate (n : Nat) (o : Op) (h : ∀ q ∈ o.qubits, q < n) (ψ : State Cyc) :
    stepOp n (tabulate n ψ) o = tabulate n (o.sem cycConsts ψ) := by
  simp only [stepOp]
  have : (tabulate n ψ).lookup n = fun x => ψ (trunc n x) := by funext x; exact lookup_tabulate n ψ x
  rw [this, Op.sem_trunc cycConsts n o h ψ, tabulate_trunc]

/-- **the executable simulator refines the specification**: for every list of operations inside an `n`-qubit
    register and every initial state, running the array simulator of the model driver on the tabulated state gives
    the tabulation of the specified semantics `semOps` - the theorems about `semOps` are theorems about what the
    driver computes -/
theorem simOps_tabulate (n : Nat) (ops : List Op) (h : ∀ o ∈ ops, ∀ q ∈ o.qubits, q < n) (ψ : State Cyc) :
    simOps n ops (tabulate n ψ) = tabulate n (semOps cycConsts ops ψ) := by
  induction ops generalizing ψ with
  | nil => rfl
  | cons o os ih =>
    have e1 : simOps n (o :: os) (tabulate n ψ) = simOps n os (stepOp n (tabulate n ψ) o) := rfl
    rw [e1, stepOp_tabulate n o (h o (by simp)) ψ, ih (fun o' ho' => h o' (by simp [ho']))]
    rfl

/-- |0…0⟩ on `n` qubits, as a function on bit strings -/
def ket0 (n : Nat) : State Cyc := fun x => if toIdx n x = 0 then 1 else 0

theorem basisSV_zero (n : Nat) : basisSV n 0 = tabulate n (ket0 n) := by
  simp only [basisSV, tabulate, ket0]
  congr 1
  funext idx
  have : toIdx n (bitsOf idx.val) = idx.val := by
    apply Nat.eq_of_testBit_eq
    intro q
    rw [testBit_toIdx]
    split
    · rfl
    · rename_i hq
      have : idx.val < 2 ^ q := Nat.lt_of_lt_of_le idx.isLt (Nat.pow_le_pow_right (by omega) (by omega))
      rw [Nat.testBit_lt_two_pow this]
  rw [this]

/-- what the driver returns for a circuit run from |0…0⟩ -/
theorem simOps_from_zero (n : Nat) (ops : List Op) (h : ∀ o ∈ ops, ∀ q ∈ o.qubits, q < n) :
    simOps n ops (basisSV n 0) = tabulate n (semOps cycConsts ops (ket0 n)) := by
  rw [basisSV_zero, simOps_tabulate n ops h]
end Tangelo
