import TangeloModel.Measure
import TangeloProofs.Lemmas.SimRefines
namespace Tangelo

theorem proj_trunc {R : Type} [Zero R] (n q : Nat) (b : Bool) (hq : q < n) (ψ : State R) :
    proj q b (fun x => ψ (trunc n x)) = fun x => proj q b ψ (trunc n x) := by
  funext x
  simp only [proj]
  have : trunc n x q = x q := by simp [trunc, hq]
  rw [this]

theorem projSV_tabulate (n q : Nat) (b : Bool) (hq : q < n) (ψ : State Cyc) :
    projSV n q b (tabulate n ψ) = tabulate n (proj q b ψ) := by
  simp only [projSV]
  have : (tabulate n ψ).lookup n = fun x => ψ (trunc n x) := by funext x; exact lookup_tabulate n ψ x
  rw [this, proj_trunc n q b hq ψ, tabulate_trunc]

/-- specification of a conditioned run on states (functions on bit strings): the recursion of `runBranch` with
    `Op.sem` and the projector `proj` in place of the array operations -/
def specBranch : Nat → List MGate → List Bool → State Cyc → Option (State Cyc)
  | 0, _, _, _ => none
  | _ + 1, [], _, ψ => some ψ
  | fuel + 1, MGate.op g :: rest, des, ψ =>
    match g.toOp with
    | none => none
    | some o => specBranch fuel rest des (o.sem cycConsts ψ)
  | fuel + 1, MGate.measure q :: rest, des, ψ =>
    match des with
    | [] => none
    | b :: des' => specBranch fuel rest des' (proj q b ψ)
  | fuel + 1, MGate.cmeasure q on0 on1 :: rest, des, ψ =>
    match des with
    | [] => none
    | b :: des' => specBranch fuel ((if b then on1 else on0) ++ rest) des' (proj q b ψ)

/-- every gate and measurement of the program, at any nesting depth, lies inside the register -/
inductive ProgInReg (n : Nat) : List MGate → Prop
  | nil : ProgInReg n []
  | op (g : Gate) (rest : List MGate) : (∀ o, g.toOp = some o → ∀ q ∈ o.qubits, q < n) → ProgInReg n rest →
      ProgInReg n (MGate.op g :: rest)
  | measure (q : Nat) (rest : List MGate) : q < n → ProgInReg n rest → ProgInReg n (MGate.measure q :: rest)
  | cmeasure (q : Nat) (on0 on1 rest : List MGate) : q < n → ProgInReg n on0 → ProgInReg n on1 → ProgInReg n rest →
      ProgInReg n (MGate.cmeasure q on0 on1 :: rest)

theorem ProgInReg.append {n : Nat} {xs ys : List MGate} (hx : ProgInReg n xs) (hy : ProgInReg n ys) : ProgInReg n (xs ++ ys) := by
  induction hx with
  | nil => exact hy
  | op g rest hg _ ih => exact ProgInReg.op g _ hg ih
  | measure q rest hq _ ih => exact ProgInReg.measure q _ hq ih
  | cmeasure q on0 on1 rest hq h0 h1 _ _ _ ih => exact ProgInReg.cmeasure q on0 on1 _ hq h0 h1 ih

/-- **the executable conditioned simulation refines its specification**: for every program inside the register -
    mid-circuit measurements and nested measurement-controlled blocks included - and every outcome string, the state
    vector the model driver returns for the branch is the table of the specified (projected, unnormalised) state -/
theorem runBranch_refines (n : Nat) :
    ∀ (fuel : Nat) (prog : List MGate) (des : List Bool) (acc : BranchOut) (ψ : State Cyc),
      ProgInReg n prog → acc.sv = tabulate n ψ →
      (runBranch n fuel prog des acc).map (·.sv) = (specBranch fuel prog des ψ).map (tabulate n) := by
  intro fuel
  induction fuel with
  | zero => intro prog des acc ψ _ _; rfl
  | succ f ih =>
    intro prog des acc ψ hp hacc
    cases hp with
    | nil => simp [runBranch, specBranch, hacc]
    | op g rest hg hr =>
      simp only [runBranch, specBranch]
      cases ho : g.toOp with
      | none => rfl
      | some o =>
        simp only
        apply ih rest des _ _ hr
        simp only [hacc]
        exact stepOp_tabulate n o (hg o ho) ψ
    | measure q rest hq hr =>
      simp only [runBranch, specBranch]
      cases des with
      | nil => rfl
      | cons b des' =>
        simp only
        apply ih rest des' _ _ hr
        simp only [hacc]
        exact projSV_tabulate n q b hq ψ
    | cmeasure q on0 on1 rest hq h0 h1 hr =>
      simp only [runBranch, specBranch]
      cases des with
      | nil => rfl
      | cons b des' =>
        simp only
        apply ih _ des' _ _ (by cases b <;> simp <;> [exact h0.append hr; exact h1.append hr])
        simp only [hacc]
        exact projSV_tabulate n q b hq ψ
end Tangelo
