import TangeloModel.Sem
import TangeloProofs.Lemmas.SemBasic
import Mathlib.Tactic.Ring
import Mathlib.Tactic.LinearCombination
/-!
# Quarter-turn rotations as explicit matrices

Consequences of the extra law `e(π/2) = (1+i)/√2` (true of ℂ and proved for the executable constants).
-/
namespace Tangelo
variable {R : Type} [CommRing R]

/-- e(π/2) = exp(iπ/4) = (1+i)/√2 -/
def HalfPi (k : Consts R) : Prop := k.e (Ang.piQuarter 2) = (1 + k.i) * k.rsqrt2

theorem e_neg_half_pi (k : Consts R) (L : k.Laws) (hp : HalfPi k) : k.e (-Ang.piQuarter 2) = (1 - k.i) * k.rsqrt2 := by
  have h := L.e_neg_mul (Ang.piQuarter 2)
  rw [hp] at h
  have hr := L.rsqrt2_sq
  have hi := L.i_sq
  linear_combination ((1 - k.i) * k.rsqrt2) * h - k.e (-Ang.piQuarter 2) * hr
    + (k.e (-Ang.piQuarter 2) * (k.rsqrt2 * k.rsqrt2)) * hi

theorem cos_half_pi (k : Consts R) (L : k.Laws) (hp : HalfPi k) : k.cosH (Ang.piQuarter 2) = k.rsqrt2 := by
  have hn := e_neg_half_pi k L hp
  unfold HalfPi at hp
  simp only [Consts.cosH]
  linear_combination k.half * hp + k.half * hn + k.rsqrt2 * L.two_half

theorem misin_half_pi (k : Consts R) (L : k.Laws) (hp : HalfPi k) : k.misinH (Ang.piQuarter 2) = -(k.i * k.rsqrt2) := by
  have hn := e_neg_half_pi k L hp
  unfold HalfPi at hp
  simp only [Consts.misinH]
  linear_combination k.half * hn - k.half * hp - (k.i * k.rsqrt2) * L.two_half

theorem neg_quarter : Ang.piQuarter (-2) = -Ang.piQuarter 2 := by
  apply Ang.ext' <;> simp [Ang.neg_def, Ang.neg, Ang.piQuarter]

theorem ry_minus_half_pi (k : Consts R) (L : k.Laws) (hp : HalfPi k) :
    baseMatrix k .RY (Ang.piQuarter (-2)) = ⟨k.rsqrt2, k.rsqrt2, -k.rsqrt2, k.rsqrt2⟩ := by
  have hc := cos_half_pi k L hp
  have hm := misin_half_pi k L hp
  rw [neg_quarter]
  apply M2.ext' <;> simp only [baseMatrix, Consts.sinH, L.cos_neg, L.misin_neg, hc, hm] <;>
    first | ring1 | linear_combination (-k.rsqrt2) * L.i_sq | linear_combination k.rsqrt2 * L.i_sq

theorem rx_half_pi (k : Consts R) (L : k.Laws) (hp : HalfPi k) :
    baseMatrix k .RX (Ang.piQuarter 2) = ⟨k.rsqrt2, -(k.i * k.rsqrt2), -(k.i * k.rsqrt2), k.rsqrt2⟩ := by
  apply M2.ext' <;> simp only [baseMatrix, cos_half_pi k L hp, misin_half_pi k L hp]

theorem rx_minus_half_pi (k : Consts R) (L : k.Laws) (hp : HalfPi k) :
    baseMatrix k .RX (Ang.piQuarter (-2)) = ⟨k.rsqrt2, k.i * k.rsqrt2, k.i * k.rsqrt2, k.rsqrt2⟩ := by
  rw [neg_quarter]
  apply M2.ext' <;> simp only [baseMatrix, L.cos_neg, L.misin_neg, cos_half_pi k L hp, misin_half_pi k L hp, neg_neg]

end Tangelo
