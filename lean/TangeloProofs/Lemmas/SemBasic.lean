import TangeloModel.Gate
import Mathlib.Tactic.Ring
import Mathlib.Tactic.LinearCombination
import Mathlib.Algebra.Ring.Basic
/-!
  Algebra of the gate semantics over an arbitrary commutative ring with the constants
  `i`, `1/√2`, `1/2` and a homomorphism `e : Ang → R` ("e θ = exp(iθ/2)").
-/
namespace Tangelo

@[ext] theorem Ang.ext' (a b : Ang) (hq : a.q = b.q) (h0 : a.k0 = b.k0) (h1 : a.k1 = b.k1) (h2 : a.k2 = b.k2)
    (h3 : a.k3 = b.k3) (h4 : a.k4 = b.k4) (h5 : a.k5 = b.k5) : a = b := by
  cases a; cases b; simp_all

theorem Ang.add_def (a b : Ang) : a + b = Ang.add a b := rfl
theorem Ang.neg_def (a : Ang) : -a = Ang.neg a := rfl
theorem Ang.zero_def : (0 : Ang) = Ang.zero := rfl

@[simp] theorem Ang.add_neg_cancel (a : Ang) : a + -a = 0 := by
  apply Ang.ext' <;> simp [Ang.add_def, Ang.neg_def, Ang.zero_def, Ang.add, Ang.neg, Ang.zero]
@[simp] theorem Ang.neg_add_cancel (a : Ang) : -a + a = 0 := by
  apply Ang.ext' <;> simp [Ang.add_def, Ang.neg_def, Ang.zero_def, Ang.add, Ang.neg, Ang.zero]
@[simp] theorem Ang.neg_neg' (a : Ang) : - -a = a := by
  apply Ang.ext' <;> simp [Ang.neg_def, Ang.neg]
theorem Ang.add_comm' (a b : Ang) : a + b = b + a := by
  apply Ang.ext' <;> simp [Ang.add_def, Ang.add] <;> omega
theorem Ang.add_assoc' (a b c : Ang) : a + b + c = a + (b + c) := by
  apply Ang.ext' <;> simp [Ang.add_def, Ang.add] <;> omega
@[simp] theorem Ang.add_zero' (a : Ang) : a + 0 = a := by
  apply Ang.ext' <;> simp [Ang.add_def, Ang.zero_def, Ang.add, Ang.zero]
@[simp] theorem Ang.zero_add' (a : Ang) : 0 + a = a := by
  apply Ang.ext' <;> simp [Ang.add_def, Ang.zero_def, Ang.add, Ang.zero]
@[simp] theorem Ang.neg_zero' : -(0 : Ang) = 0 := by
  apply Ang.ext' <;> simp [Ang.neg_def, Ang.zero_def, Ang.neg, Ang.zero]
theorem Ang.neg_add' (a b : Ang) : -(a + b) = -a + -b := by
  apply Ang.ext' <;> simp [Ang.add_def, Ang.neg_def, Ang.add, Ang.neg] <;> omega

variable {R : Type} [CommRing R]

/-- what is assumed of the constants; satisfied by ℂ with e θ = exp(iθ/2) and by `Cyc` -/
structure Consts.Laws (k : Consts R) : Prop where
  i_sq : k.i * k.i = -1
  rsqrt2_sq : 2 * (k.rsqrt2 * k.rsqrt2) = 1
  two_half : 2 * k.half = 1
  e_zero : k.e 0 = 1
  e_add : ∀ a b, k.e (a + b) = k.e a * k.e b
  e_pi : k.e Ang.pi = k.i

namespace Consts.Laws
variable {k : Consts R} (L : k.Laws)
include L

theorem e_mul_neg (a : Ang) : k.e a * k.e (-a) = 1 := by rw [← L.e_add, Ang.add_neg_cancel, L.e_zero]
theorem e_neg_mul (a : Ang) : k.e (-a) * k.e a = 1 := by rw [← L.e_add, Ang.neg_add_cancel, L.e_zero]

theorem half_sq : 4 * (k.half * k.half) = 1 := by linear_combination (2 * k.half + 1) * L.two_half

/-- cos² + sin² = 1, written with `−i sin` -/
theorem cos_sq_sub (θ : Ang) : k.cosH θ * k.cosH θ - k.misinH θ * k.misinH θ = 1 := by
  unfold Consts.cosH Consts.misinH
  linear_combination (k.e θ * k.e (-θ)) * L.half_sq + L.e_mul_neg θ

theorem cos_neg (θ : Ang) : k.cosH (-θ) = k.cosH θ := by
  unfold Consts.cosH; rw [Ang.neg_neg']; ring
theorem misin_neg (θ : Ang) : k.misinH (-θ) = -k.misinH θ := by
  unfold Consts.misinH; rw [Ang.neg_neg']; ring
theorem cos_zero : k.cosH 0 = 1 := by
  unfold Consts.cosH; rw [Ang.neg_zero', L.e_zero]; linear_combination L.two_half
theorem misin_zero : k.misinH 0 = 0 := by
  unfold Consts.misinH; rw [Ang.neg_zero', L.e_zero]; ring

/-- angle addition for cos(θ/2) and −i·sin(θ/2) -/
theorem cos_add (a b : Ang) : k.cosH (a + b) = k.cosH a * k.cosH b + k.misinH a * k.misinH b := by
  unfold Consts.cosH Consts.misinH
  rw [Ang.neg_add', L.e_add, L.e_add]
  linear_combination (-(k.e a * k.e b + k.e (-a) * k.e (-b)) * k.half) * L.two_half + (k.e a * k.e b + k.e (-a) * k.e (-b)) * k.half
theorem misin_add (a b : Ang) : k.misinH (a + b) = k.misinH a * k.cosH b + k.cosH a * k.misinH b := by
  unfold Consts.cosH Consts.misinH
  rw [Ang.neg_add', L.e_add, L.e_add]
  linear_combination (-(k.e (-a) * k.e (-b) - k.e a * k.e b) * k.half) * L.two_half + (k.e (-a) * k.e (-b) - k.e a * k.e b) * k.half

end Consts.Laws

/-! ## 2×2 matrices -/
@[ext] theorem M2.ext' (m n : M2 R) (ha : m.a = n.a) (hb : m.b = n.b) (hc : m.c = n.c) (hd : m.d = n.d) : m = n := by
  cases m; cases n; simp_all

/-! ## bit-level facts -/
@[simp] theorem Bits.set_same (x : Bits) (q : Nat) (b : Bool) : (x.set q b) q = b := by simp [Bits.set]
@[simp] theorem Bits.set_other (x : Bits) (q r : Nat) (b : Bool) (h : r ≠ q) : (x.set q b) r = x r := by simp [Bits.set, h]
@[simp] theorem Bits.set_set (x : Bits) (q : Nat) (b c : Bool) : (x.set q b).set q c = x.set q c := by
  funext r; by_cases h : r = q <;> simp [Bits.set, h]
theorem Bits.set_self (x : Bits) (q : Nat) : x.set q (x q) = x := by
  funext r; by_cases h : r = q <;> simp [Bits.set, h]
theorem Bits.set_comm (x : Bits) (q r : Nat) (b c : Bool) (h : q ≠ r) : (x.set q b).set r c = (x.set r c).set q b := by
  funext s
  by_cases h1 : s = q <;> by_cases h2 : s = r
  · subst h1; subst h2; exact absurd rfl h
  · subst h1; simp [Bits.set, h]
  · subst h2; simp [Bits.set, Ne.symm h]
  · simp [Bits.set, h1, h2]

theorem all_set_of_not_mem (cs : List Nat) (x : Bits) (t : Nat) (b : Bool) (h : t ∉ cs) :
    cs.all (fun c => (x.set t b) c) = cs.all (fun c => x c) := by
  induction cs with
  | nil => rfl
  | cons c cs ih =>
    have hc : c ≠ t := fun e => h (by simp [e])
    have hcs : t ∉ cs := fun e => h (by simp [e])
    have ih' := ih hcs
    simp only [List.all_cons, ih']
    simp [Bits.set, hc]

/-! ## composition of one-qubit matrices, with and without controls -/

theorem app1_one (t : Nat) (ψ : State R) : app1 (M2.one : M2 R) t ψ = ψ := by
  funext x
  by_cases h : x t
  · simp only [app1, h, M2.one, if_true, zero_mul, one_mul, zero_add]
    rw [← h, Bits.set_self]
  · simp only [app1, h, M2.one, zero_mul, one_mul, add_zero]
    have h' : x t = false := by simpa using h
    simp only [Bool.false_eq_true, if_false]
    rw [← h', Bits.set_self]

theorem app1_app1 (m n : M2 R) (t : Nat) (ψ : State R) : app1 m t (app1 n t ψ) = app1 (m.mul n) t ψ := by
  funext x
  by_cases h : x t <;> simp [app1, h, M2.mul] <;> ring

theorem ctl_nil (f : State R → State R) (ψ : State R) : ctl [] f ψ = f ψ := by
  funext x; simp [ctl]

/-- controlled matrices on the same target and controls compose like the matrices -/
theorem ctl_app1_app1 (cs : List Nat) (m n : M2 R) (t : Nat) (ht : t ∉ cs) (ψ : State R) :
    ctl cs (app1 m t) (ctl cs (app1 n t) ψ) = ctl cs (app1 (m.mul n) t) ψ := by
  funext x
  by_cases hc : cs.all (fun c => x c) = true
  · simp only [ctl, hc, if_true]
    have h0 := all_set_of_not_mem cs x t false ht
    have h1 := all_set_of_not_mem cs x t true ht
    by_cases h : x t <;> simp [app1, h, M2.mul, ctl, h0, h1, hc] <;> ring
  · simp [ctl, hc]

theorem ctl_app1_one (cs : List Nat) (t : Nat) (ψ : State R) : ctl cs (app1 (M2.one : M2 R) t) ψ = ψ := by
  funext x
  simp only [ctl]
  split
  · rw [app1_one]
  · rfl

end Tangelo
