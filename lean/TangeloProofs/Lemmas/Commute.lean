import TangeloProofs.Lemmas.OpInverse
import TangeloProofs.Lemmas.Isometry
import Mathlib.Tactic.Ring
/-!
# Operations on disjoint qubits commute
-/
namespace Tangelo
variable {R : Type} [CommRing R]

theorem ctl_app1_comm (m m' : M2 R) (t t' : Nat) (cs cs' : List Nat) (htt : t ≠ t')
    (h1 : t ∉ cs') (h2 : t' ∉ cs) (ψ : State R) :
    ctl cs (app1 m t) (ctl cs' (app1 m' t') ψ) = ctl cs' (app1 m' t') (ctl cs (app1 m t) ψ) := by
  funext x
  have htt' : t' ≠ t := fun e => htt e.symm
  have a1 : ∀ b, cs'.all (fun c => (x.set t b) c) = cs'.all (fun c => x c) := fun b => all_set_of_not_mem cs' x t b h1
  have a2 : ∀ b, cs.all (fun c => (x.set t' b) c) = cs.all (fun c => x c) := fun b => all_set_of_not_mem cs x t' b h2
  have c00 := Bits.set_comm x t t' false false htt
  have c01 := Bits.set_comm x t t' false true htt
  have c10 := Bits.set_comm x t t' true false htt
  have c11 := Bits.set_comm x t t' true true htt
  simp only [ctl, app1, a1, a2, Bits.set_other _ _ _ _ htt, Bits.set_other _ _ _ _ htt', c00, c01, c10, c11]
  by_cases hc : cs.all (fun c => x c) = true <;> by_cases hc' : cs'.all (fun c => x c) = true <;>
    by_cases hx : x t = true <;> by_cases hx' : x t' = true <;> simp [hc, hc', hx, hx'] <;> ring

/-! bit-level commutation facts -/

theorem Bits.swap_set (x : Bits) (a b t : Nat) (v : Bool) (ha : t ≠ a) (hb : t ≠ b) :
    (x.set t v).swap a b = (x.swap a b).set t v := by
  funext r; simp only [Bits.swap, Bits.set]; grind

theorem Bits.swap_other (x : Bits) (a b t : Nat) (ha : t ≠ a) (hb : t ≠ b) : (x.swap a b) t = x t := by
  simp [Bits.swap, ha, hb]

theorem Bits.flip_set (x : Bits) (a t : Nat) (v : Bool) (h : t ≠ a) : (x.set t v).flip a = (x.flip a).set t v := by
  funext r; simp only [Bits.flip, Bits.set]; grind

theorem Bits.flip_other (x : Bits) (a t : Nat) (h : t ≠ a) : (x.flip a) t = x t := by
  simp [Bits.flip, h]

theorem Bits.flip_swap (x : Bits) (a b c : Nat) (h1 : c ≠ a) (h2 : c ≠ b) : (x.swap a b).flip c = (x.flip c).swap a b := by
  funext r; simp only [Bits.flip, Bits.swap]; grind

theorem Bits.flip_flip_comm (x : Bits) (a b : Nat) : (x.flip a).flip b = (x.flip b).flip a := by
  funext r; simp only [Bits.flip]; grind

theorem Bits.swap_swap_comm (x : Bits) (a b c d : Nat) (h1 : a ≠ c) (h2 : a ≠ d) (h3 : b ≠ c) (h4 : b ≠ d) :
    (x.swap a b).swap c d = (x.swap c d).swap a b := by
  funext r; simp only [Bits.swap]; grind

theorem ctl_app1_swap_comm (m : M2 R) (t a b : Nat) (cs cs' : List Nat) (hta : t ≠ a) (htb : t ≠ b)
    (h1 : t ∉ cs') (h2 : a ∉ cs) (h3 : b ∉ cs) (ψ : State R) :
    ctl cs (app1 m t) (ctl cs' (appSwap a b) ψ) = ctl cs' (appSwap a b) (ctl cs (app1 m t) ψ) := by
  funext x
  have a1 : ∀ v, cs'.all (fun c => (x.set t v) c) = cs'.all (fun c => x c) := fun v => all_set_of_not_mem cs' x t v h1
  have a2 : cs.all (fun c => (x.swap a b) c) = cs.all (fun c => x c) := all_swap_of_not_mem cs x a b h2 h3
  have s0 := Bits.swap_set x a b t false hta htb
  have s1 := Bits.swap_set x a b t true hta htb
  have so := Bits.swap_other x a b t hta htb
  simp only [ctl, app1, appSwap, a1, a2, s0, s1, so]
  by_cases hc : cs.all (fun c => x c) = true <;> by_cases hc' : cs'.all (fun c => x c) = true <;>
    by_cases hx : x t = true <;> simp [hc, hc', hx]

theorem ctl_swap_swap_comm (a b c d : Nat) (cs cs' : List Nat) (h1 : a ≠ c) (h2 : a ≠ d) (h3 : b ≠ c) (h4 : b ≠ d)
    (ha : a ∉ cs') (hb : b ∉ cs') (hc : c ∉ cs) (hd : d ∉ cs) (ψ : State R) :
    ctl cs (appSwap a b) (ctl cs' (appSwap c d) ψ) = ctl cs' (appSwap c d) (ctl cs (appSwap a b) ψ) := by
  funext x
  have a1 : cs'.all (fun q => (x.swap a b) q) = cs'.all (fun q => x q) := all_swap_of_not_mem cs' x a b ha hb
  have a2 : cs.all (fun q => (x.swap c d) q) = cs.all (fun q => x q) := all_swap_of_not_mem cs x c d hc hd
  have sc := Bits.swap_swap_comm x a b c d h1 h2 h3 h4
  simp only [ctl, appSwap, a1, a2]
  by_cases hq : cs.all (fun q => x q) = true <;> by_cases hq' : cs'.all (fun q => x q) = true <;> simp [hq, hq', sc]

theorem xx_app1_comm (k : Consts R) (θ : Ang) (a b : Nat) (m : M2 R) (t : Nat) (cs : List Nat)
    (hta : t ≠ a) (htb : t ≠ b) (ha : a ∉ cs) (hb : b ∉ cs) (ψ : State R) :
    appXX k θ a b (ctl cs (app1 m t) ψ) = ctl cs (app1 m t) (appXX k θ a b ψ) := by
  funext x
  have a1 : cs.all (fun q => ((x.flip a).flip b) q) = cs.all (fun q => x q) := by
    rw [all_flip_of_not_mem cs (x.flip a) b hb, all_flip_of_not_mem cs x a ha]
  have f0 : ((x.flip a).flip b).set t false = ((x.set t false).flip a).flip b := by
    rw [Bits.flip_set x a t false hta, Bits.flip_set (x.flip a) b t false htb]
  have f1 : ((x.flip a).flip b).set t true = ((x.set t true).flip a).flip b := by
    rw [Bits.flip_set x a t true hta, Bits.flip_set (x.flip a) b t true htb]
  have fo : ((x.flip a).flip b) t = x t := by rw [Bits.flip_other _ b t htb, Bits.flip_other _ a t hta]
  simp only [appXX, ctl, app1, a1, f0, f1, fo]
  by_cases hq : cs.all (fun q => x q) = true <;> by_cases hx : x t = true <;> simp [hq, hx] <;> ring

theorem xx_swap_comm (k : Consts R) (θ : Ang) (a b c d : Nat) (cs : List Nat)
    (h1 : a ≠ c) (h2 : a ≠ d) (h3 : b ≠ c) (h4 : b ≠ d) (ha : a ∉ cs) (hb : b ∉ cs) (ψ : State R) :
    appXX k θ a b (ctl cs (appSwap c d) ψ) = ctl cs (appSwap c d) (appXX k θ a b ψ) := by
  funext x
  have a1 : cs.all (fun q => ((x.flip a).flip b) q) = cs.all (fun q => x q) := by
    rw [all_flip_of_not_mem cs (x.flip a) b hb, all_flip_of_not_mem cs x a ha]
  have fs : ((x.flip a).flip b).swap c d = ((x.swap c d).flip a).flip b := by
    rw [← Bits.flip_swap _ c d b h3 h4, ← Bits.flip_swap _ c d a h1 h2]
  simp only [appXX, ctl, appSwap, a1, fs]
  by_cases hq : cs.all (fun q => x q) = true <;> simp [hq]

theorem xx_xx_comm (k : Consts R) (θ θ' : Ang) (a b c d : Nat) (ψ : State R) :
    appXX k θ a b (appXX k θ' c d ψ) = appXX k θ' c d (appXX k θ a b ψ) := by
  funext x
  have e : (((x.flip a).flip b).flip c).flip d = (((x.flip c).flip d).flip a).flip b := by
    funext r; simp only [Bits.flip]; grind
  simp only [appXX, e]; ring

/-- **operations on disjoint qubit sets commute** -/
theorem Op.comm_disjoint (k : Consts R) (o o' : Op) (hd : ∀ q ∈ o.qubits, q ∉ o'.qubits) (ψ : State R) :
    o.sem k (o'.sem k ψ) = o'.sem k (o.sem k ψ) := by
  cases o with
  | one b θ t cs =>
    cases o' with
    | one b' θ' t' cs' =>
      simp only [Op.qubits, List.mem_cons] at hd
      exact ctl_app1_comm _ _ t t' cs cs' (fun e => hd t (Or.inl rfl) (Or.inl e))
        (fun h => hd t (Or.inl rfl) (Or.inr h)) (fun h => hd t' (Or.inr h) (Or.inl rfl)) ψ
    | swap a' b' cs' =>
      simp only [Op.qubits, List.mem_cons] at hd
      exact ctl_app1_swap_comm _ t a' b' cs cs' (fun e => hd t (Or.inl rfl) (Or.inl e))
        (fun e => hd t (Or.inl rfl) (Or.inr (Or.inl e))) (fun h => hd t (Or.inl rfl) (Or.inr (Or.inr h)))
        (fun h => hd a' (Or.inr h) (Or.inl rfl)) (fun h => hd b' (Or.inr h) (Or.inr (Or.inl rfl))) ψ
    | xx θ' a' b' =>
      simp only [Op.qubits, List.mem_cons, List.mem_singleton, List.not_mem_nil, or_false] at hd
      exact (xx_app1_comm k θ' a' b' _ t cs (fun e => hd t (Or.inl rfl) (Or.inl e)) (fun e => hd t (Or.inl rfl) (Or.inr e))
        (fun h => hd a' (Or.inr h) (Or.inl rfl)) (fun h => hd b' (Or.inr h) (Or.inr rfl)) ψ).symm
  | swap a b cs =>
    cases o' with
    | one b' θ' t' cs' =>
      simp only [Op.qubits, List.mem_cons] at hd
      exact (ctl_app1_swap_comm _ t' a b cs' cs (fun e => hd a (Or.inl rfl) (Or.inl e.symm))
        (fun e => hd b (Or.inr (Or.inl rfl)) (Or.inl e.symm)) (fun h => hd t' (Or.inr (Or.inr h)) (Or.inl rfl))
        (fun h => hd a (Or.inl rfl) (Or.inr h)) (fun h => hd b (Or.inr (Or.inl rfl)) (Or.inr h)) ψ).symm
    | swap a' b' cs' =>
      simp only [Op.qubits, List.mem_cons] at hd
      exact ctl_swap_swap_comm a b a' b' cs cs' (fun e => hd a (Or.inl rfl) (Or.inl e))
        (fun e => hd a (Or.inl rfl) (Or.inr (Or.inl e))) (fun e => hd b (Or.inr (Or.inl rfl)) (Or.inl e))
        (fun e => hd b (Or.inr (Or.inl rfl)) (Or.inr (Or.inl e)))
        (fun h => hd a (Or.inl rfl) (Or.inr (Or.inr h))) (fun h => hd b (Or.inr (Or.inl rfl)) (Or.inr (Or.inr h)))
        (fun h => hd a' (Or.inr (Or.inr h)) (Or.inl rfl)) (fun h => hd b' (Or.inr (Or.inr h)) (Or.inr (Or.inl rfl))) ψ
    | xx θ' a' b' =>
      simp only [Op.qubits, List.mem_cons, List.mem_singleton, List.not_mem_nil, or_false] at hd
      exact (xx_swap_comm k θ' a' b' a b cs (fun e => hd a (Or.inl rfl) (Or.inl e.symm))
        (fun e => hd b (Or.inr (Or.inl rfl)) (Or.inl e.symm)) (fun e => hd a (Or.inl rfl) (Or.inr e.symm))
        (fun e => hd b (Or.inr (Or.inl rfl)) (Or.inr e.symm))
        (fun h => hd a' (Or.inr (Or.inr h)) (Or.inl rfl)) (fun h => hd b' (Or.inr (Or.inr h)) (Or.inr rfl)) ψ).symm
  | xx θ a b =>
    cases o' with
    | one b' θ' t' cs' =>
      simp only [Op.qubits, List.mem_cons, List.mem_singleton, List.not_mem_nil, or_false] at hd
      exact xx_app1_comm k θ a b _ t' cs' (fun e => hd a (Or.inl rfl) (Or.inl e.symm)) (fun e => hd b (Or.inr rfl) (Or.inl e.symm))
        (fun h => hd a (Or.inl rfl) (Or.inr h)) (fun h => hd b (Or.inr rfl) (Or.inr h)) ψ
    | swap a' b' cs' =>
      simp only [Op.qubits, List.mem_cons, List.mem_singleton, List.not_mem_nil, or_false] at hd
      exact xx_swap_comm k θ a b a' b' cs' (fun e => hd a (Or.inl rfl) (Or.inl e)) (fun e => hd a (Or.inl rfl) (Or.inr (Or.inl e)))
        (fun e => hd b (Or.inr rfl) (Or.inl e)) (fun e => hd b (Or.inr rfl) (Or.inr (Or.inl e)))
        (fun h => hd a (Or.inl rfl) (Or.inr (Or.inr h))) (fun h => hd b (Or.inr rfl) (Or.inr (Or.inr h))) ψ
    | xx θ' a' b' => exact xx_xx_comm k θ θ' a b a' b' ψ

end Tangelo
