import TangeloModel.Num
import TangeloModel.Ang
import TangeloModel.Sem
import TangeloModel.Sim
import TangeloModel.Gate
import TangeloModel.Circuit
import TangeloModel.Store
import TangeloModel.Clifford
