import Driver.Main
