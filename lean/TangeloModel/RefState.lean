import TangeloModel.JW
/-!
  Reference-state vectors and circuits (`statevector_mapping.py`, C05): occupation filling from
  (n_electrons, spin), ordering conversion, Jordan-Wigner (identity), vector → X gates.
-/
namespace Tangelo.RefState

/-- Python floor division by 2 on integers -/
def fdiv2 (a : Int) : Int := Int.fdiv a 2

/-- Python slice assignment `vector[start:stop:2] = 1` on a list of length n (stop clipped to n; negative stop
    counts from the end) -/
def setStride (v : List Bool) (start : Nat) (stop : Int) : List Bool :=
  let n := v.length
  let stop' : Nat := if stop < 0 then (Int.toNat (stop + n)) else min stop.toNat n
  v.zipIdx.map (fun (b, i) => if start ≤ i && i < stop' && (i - start) % 2 == 0 then true else b)

/-- `get_vector` before the mapping: `spin = none` models both `None` and `0` (the test is `if spin:`) -/
def occupation (n : Nat) (ne : Int) (spin : Option Int) : List Bool :=
  let zero := List.replicate n false
  match spin with
  | some s =>
    if s == 0 then setStride' zero ne else
    let nAlpha := fdiv2 ne + fdiv2 s + ne % 2
    let nBeta := fdiv2 ne - fdiv2 s
    setStride (setStride zero 0 (2 * nAlpha)) 1 (2 * nBeta + 1)
  | none => setStride' zero ne
where
  /-- `vector[:ne] = 1` -/
  setStride' (v : List Bool) (ne : Int) : List Bool :=
    let n := v.length
    let stop' : Nat := if ne < 0 then Int.toNat (ne + n) else min ne.toNat n
    v.zipIdx.map (fun (b, i) => if i < stop' then true else b)

/-- `np.concatenate((vector[::2], vector[1::2]))` -/
def toUpThenDown (v : List Bool) : List Bool :=
  (v.zipIdx.filter (fun (_, i) => i % 2 == 0)).map (·.1) ++ (v.zipIdx.filter (fun (_, i) => i % 2 == 1)).map (·.1)

/-- `get_mapped_vector(vector, "JW", up_then_down)` -/
def mappedJW (v : List Bool) (utd : Bool) : List Bool := if utd then toUpThenDown v else v

/-- `vector_to_circuit`: an X gate on every occupied position (positions counted from `i`) -/
def toGatesFrom (i : Nat) : List Bool → List Gate
  | [] => []
  | b :: bs => (if b then [(⟨"X", [i], none, .none, false⟩ : Gate)] else []) ++ toGatesFrom (i + 1) bs

def toGates (v : List Bool) : List Gate := toGatesFrom 0 v

/-- admissibility of (n_electrons, spin) on n spin-orbitals, and the check that the filled vector has the requested
    numbers of alpha (even positions) and beta (odd positions) electrons, lowest orbitals first -/
def occupationOk (n : Nat) (ne : Nat) (s : Int) : Bool :=
  let v := occupation n ne (some s)
  let nA : Int := ((ne : Int) + s) / 2
  let nB : Int := ((ne : Int) - s) / 2
  let expected := (List.range n).map (fun i => if i % 2 == 0 then decide (((i / 2 : Nat) : Int) < nA) else decide (((i / 2 : Nat) : Int) < nB))
  v == expected

/-- all admissible (ne, spin) for a given even n -/
def admissible (n : Nat) : List (Nat × Int) :=
  (List.range (n + 1)).flatMap (fun ne => ((List.range (2 * ne + 1)).map (fun (k : Nat) => ((k : Int) - (ne : Int)))).filterMap (fun s =>
    if (((ne : Int) + s) % 2 == 0) && (((ne : Int) + s) / 2 ≤ (n / 2 : Nat)) && (((ne : Int) - s) / 2 ≤ (n / 2 : Nat)) && (((ne : Int) + s) / 2 ≥ 0) && (((ne : Int) - s) / 2 ≥ 0)
    then some (ne, s) else none))

end Tangelo.RefState
