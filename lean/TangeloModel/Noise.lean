import TangeloModel.Measure
/-!
  Noisy simulation (C19): noise-model validation, channel placement of the cirq translator, and the
  exact density matrix.  A density matrix on n qubits is the vector ρ_{xy} on 2n qubits (row x on
  qubits 0..n−1, column y on qubits n..2n−1);  UρU† = (U ⊗ U*)·vec ρ.
-/
namespace Tangelo.Noise

inductive Kind
  | pauli (px py pz : Rat)
  | depol (p : Rat)
deriving DecidableEq, Repr, Inhabited

def Kind.tag : Kind → String | .pauli .. => "pauli" | .depol _ => "depol"

/-- `_quantum_errors`: gate name ↦ list of errors, insertion order -/
abbrev Model := List (String × List Kind)

/-- what a caller may pass as `noise_params` -/
inductive RawParams
  | list (l : List Rat)
  | float (p : Rat)
  | other
deriving Repr, Inhabited

/-- `add_quantum_error(gate, noise_type, noise_params)`; `none` = ValueError -/
def parseKind (ty : String) (ps : RawParams) : Option Kind :=
  match ty, ps with
  | "pauli", .list [a, b, c] => some (.pauli a b c)
  | "depol", .float p => some (.depol p)
  | _, _ => none

def addError (m : Model) (gate : String) (ty : String) (ps : RawParams) : Option Model :=
  match parseKind ty ps with
  | none => none
  | some k =>
    match m.find? (·.1 == gate) with
    | some (_, ks) => if ks.any (fun k' => k'.tag == k.tag) then none
                      else some (m.map (fun (g, l) => if g == gate then (g, l ++ [k]) else (g, l)))
    | none => some (m ++ [(gate, [k])])

inductive NOp
  | gate (g : Gate)
  | pauliCh (px py pz : Rat) (q : Nat)
  | depolCh (rate : Rat) (qs : List Nat)      -- `rate` is the parameter handed to cirq.depolarize
deriving Repr, Inhabited

/-- the cirq rate of a k-qubit depolarising channel: p(4ᵏ − 1)/4ᵏ -/
def depolRate (p : Rat) (k : Nat) : Rat := p * ((4 : Rat) ^ k - 1) / (4 : Rat) ^ k

def channelsFor (m : Model) (g : Gate) : List NOp :=
  match m.find? (·.1 == g.name) with
  | none => []
  | some (_, ks) => ks.flatMap (fun k => match k with
      | .pauli px py pz => (g.target ++ g.control.getD []).map (fun q => NOp.pauliCh px py pz q)
      | .depol p => let qs := g.target ++ g.control.getD []; [NOp.depolCh (depolRate p qs.length) qs])

/-- the operations of the translated circuit: every gate followed by its channels, in gate order -/
def noisyOps (m : Model) (gs : List Gate) : List NOp := gs.flatMap (fun g => NOp.gate g :: channelsFor m g)

/-! ## exact density-matrix semantics -/

def conjSV (a : SV) : SV := a.map Cyc.conj
def addSV (a b : SV) : SV := Array.ofFn (n := a.size) fun i => a.getD i.val 0 + b.getD i.val 0
def scaleSV (z : Cyc) (a : SV) : SV := a.map (fun x => z * x)

def shiftOp (n : Nat) : Op → Op
  | .one b θ t cs => .one b θ (t + n) (cs.map (· + n))
  | .swap a b cs => .swap (a + n) (b + n) (cs.map (· + n))
  | .xx θ a b => .xx θ (a + n) (b + n)

/-- ρ ↦ UρU† on the vectorised density matrix -/
def applyUnitary (n : Nat) (o : Op) (v : SV) : SV :=
  let v1 := stepOp (2 * n) v o
  conjSV (stepOp (2 * n) (conjSV v1) (shiftOp n o))

/-- all Pauli assignments (codes 0..3) to the qubits `qs`, as lists of single-qubit operations -/
def pauliStrings : List Nat → List (List Op)
  | [] => [[]]
  | q :: qs => (pauliStrings qs).flatMap (fun rest =>
      [rest, Op.one .X 0 q [] :: rest, Op.one .Y 0 q [] :: rest, Op.one .Z 0 q [] :: rest])

def conjugateBy (n : Nat) (ops : List Op) (v : SV) : SV := ops.foldl (fun acc o => applyUnitary n o acc) v

/-- asymmetric depolarising channel on one qubit -/
def applyPauliCh (n : Nat) (px py pz : Rat) (q : Nat) (v : SV) : SV :=
  let t := fun (b : Base) => applyUnitary n (Op.one b 0 q []) v
  addSV (addSV (scaleSV (Cyc.ofRat (1 - px - py - pz)) v) (scaleSV (Cyc.ofRat px) (t .X)))
        (addSV (scaleSV (Cyc.ofRat py) (t .Y)) (scaleSV (Cyc.ofRat pz) (t .Z)))

/-- k-qubit depolarising channel with cirq parameter `rate`: every non-identity Pauli string with
    probability rate/(4ᵏ − 1) -/
def applyDepolCh (n : Nat) (rate : Rat) (qs : List Nat) (v : SV) : SV :=
  let k := qs.length
  let each : Rat := rate / ((4 : Rat) ^ k - 1)
  let strs := (pauliStrings qs).filter (fun s => !s.isEmpty)
  strs.foldl (fun acc s => addSV acc (scaleSV (Cyc.ofRat each) (conjugateBy n s v))) (scaleSV (Cyc.ofRat (1 - rate)) v)

def applyNOp (n : Nat) (v : SV) : NOp → Option SV
  | .gate g => g.toOp.map (fun o => applyUnitary n o v)
  | .pauliCh px py pz q => some (applyPauliCh n px py pz q v)
  | .depolCh r qs => some (applyDepolCh n r qs v)

def runNoisy (n : Nat) (ops : List NOp) : Option SV :=
  ops.foldlM (fun v o => applyNOp n v o) (basisSV (2 * n) 0)

end Tangelo.Noise
