import TangeloModel.Circuit
/-!
  The circuit *store* state machine: named circuits and the operations a user can apply to
  them (C11's "operation history").  The driver parses a JSON line into a `COp` and calls
  `step`; the theorems of C11 are about `step` / `run`.
-/
namespace Tangelo

/-- the float-dependent decisions of the code, abstracted -/
structure Decide where
  eqv : Gate → Gate → Bool
  small : Float → Gate → Bool        -- threshold ↦ predicate

abbrev Store := List (String × Circuit)

def Store.get? (s : Store) (k : String) : Option Circuit := (s.find? (·.1 == k)).map (·.2)
def Store.put (s : Store) (k : String) (c : Circuit) : Store :=
  if s.any (·.1 == k) then s.map (fun p => if p.1 == k then (k, c) else p) else s ++ [(k, c)]

/-- a gate as a caller writes it -/
structure RawGate where
  name : Option String
  target : List RawIdx
  control : Option (List RawIdx)
  param : Param
  isVar : Bool
deriving Repr, Inhabited

inductive COp
  | new (dst : String) (gates : List Gate) (n : Option Nat)
  | addGate (dst : String) (g : RawGate)
  | add (dst a b : String)
  | mul (dst a : String) (n : Int)
  | copy (dst a : String)
  | inverse (dst a : String)
  | trim (dst : String)
  | reindex (dst : String) (idx : List Nat)
  | split (dst a : String) (trim : Bool)
  | stack (dst : String) (ids : List String)
  | rsr (dst a : String) (thr : Float) (rq : Bool)
  | rrg (dst a : String) (rq : Bool)
  | merge (dst a : String)
  | simplify (dst a : String) (cycles : Nat) (thr : Float) (rq : Bool)
  | depth (a : String)
  | eq (a b : String)
  | entangled (a : String)
  | noop                       -- translate / simulate: read-only observers
deriving Repr, Inhabited

inductive Res
  | unit
  | nat (n : Nat)
  | bool (b : Bool)
  | sets (l : List (List Nat))
  | err (e : Err)
deriving Repr, Inhabited

def need (s : Store) (k : String) : Except Err Circuit := match s.get? k with
  | some c => .ok c
  | Option.none => .error .other

def putAll (s : Store) (dst : String) (cs : List Circuit) : Store :=
  cs.zipIdx.foldl (fun st (c, i) => st.put s!"{dst}{i}" c) s

/-- the transition, in `Except`: an error carries no new store -/
def stepE (d : Decide) (s : Store) : COp → Except Err (Store × Res)
  | .new dst gs n => do
      let c ← Circuit.ofGates gs n
      pure (s.put dst c, .unit)
  | .addGate dst g => do
      let c ← need s dst
      match Gate.mk? g.name g.target g.control g.param g.isVar with
      | .error .value => throw Err.value
      | .error .type => throw Err.type
      | .ok gate =>
        let c' ← c.addGate gate
        pure (s.put dst c', .unit)
  | .add dst a b => do
      let ca ← need s a; let cb ← need s b
      let c ← ca.add cb
      pure (s.put dst c, .unit)
  | .mul dst a n => do
      let ca ← need s a
      let c ← ca.mul n
      pure (s.put dst c, .unit)
  | .copy dst a => do
      let ca ← need s a; let c ← ca.copy
      pure (s.put dst c, .unit)
  | .inverse dst a => do
      let ca ← need s a; let c ← ca.inverse
      pure (s.put dst c, .unit)
  | .trim dst => do
      let ca ← need s dst; let c ← ca.trimQubits
      pure (s.put dst c, .unit)
  | .reindex dst idx => do
      let ca ← need s dst; let c ← ca.reindexQubits idx
      pure (s.put dst c, .unit)
  | .split dst a trim => do
      let ca ← need s a
      let cs ← ca.split trim
      pure (putAll s dst cs, .nat cs.length)
  | .stack dst ids => do
      let cs ← ids.mapM (need s)
      let c ← Circuit.stack cs
      pure (s.put dst c, .unit)
  | .rsr dst a thr rq => do
      let ca ← need s a; let c ← Circuit.removeSmallWith (d.small thr) ca rq
      pure (s.put dst c, .unit)
  | .rrg dst a rq => do
      let ca ← need s a; let c ← Circuit.removeRedundantWith d.eqv ca rq
      pure (s.put dst c, .unit)
  | .merge dst a => do
      let ca ← need s a; let c ← Circuit.mergeRotationsWith d.eqv ca
      pure (s.put dst c, .unit)
  | .simplify dst a cycles thr rq => do
      let ca ← need s a
      let c ← Circuit.simplifyWith d.eqv (d.small thr) ca cycles rq
      pure (s.put dst c, .unit)
  | .depth a => do
      let ca ← need s a
      pure (s, .nat ca.depth)
  | .eq a b => do
      let ca ← need s a; let cb ← need s b
      pure (s, .bool (Circuit.eqvWith d.eqv ca cb))
  | .entangled a => do
      let ca ← need s a
      pure (s, .sets ca.entangledIndices)
  | .noop => pure (s, .unit)

/-- total transition: a rejected operation leaves the store as it was -/
def step (d : Decide) (s : Store) (op : COp) : Store × Res :=
  match stepE d s op with
  | .ok r => r
  | .error e => (s, .err e)

def run (d : Decide) (s : Store) (ops : List COp) : Store := ops.foldl (fun st op => (step d st op).1) s

end Tangelo
