import TangeloModel.QubitOp
/-!
  Symbolic operators as finitely supported maps key ↦ coefficient (C16 specification store).
  Fermionic key: ladder string ((index, action) …), product = concatenation (openfermion does not
  normal-order).  Qubit key: Pauli word sorted by index without identities, product via `mul1`.
  The canonical form is: keys sorted, no zero coefficient.
-/
namespace Tangelo

abbrev Key := List (Nat × Nat)

inductive OpKind | fermion | qubit
deriving DecidableEq, Repr, Inhabited

structure SymOp where
  kind : OpKind
  terms : List (Key × Cyc)        -- canonical: sorted by key, non-zero
  attrs : Option (List Int)       -- annotation triple of Tangelo's FermionOperator / pair of QubitHamiltonian; none = plain
deriving Repr, Inhabited

namespace SymOp

def keyLt : Key → Key → Bool
  | [], [] => false
  | [], _ :: _ => true
  | _ :: _, [] => false
  | (a, b) :: xs, (c, d) :: ys => if a < c then true else if a > c then false else if b < d then true else if b > d then false else keyLt xs ys

/-- add `c` to the coefficient of `k` in a sorted term list -/
def addTerm (ts : List (Key × Cyc)) (k : Key) (c : Cyc) : List (Key × Cyc) :=
  match ts with
  | [] => if c.isZero then [] else [(k, c)]
  | (k', c') :: rest =>
    if k' == k then (let s := c' + c; if s.isZero then rest else (k', s) :: rest)
    else if keyLt k k' then (if c.isZero then ts else (k, c) :: ts)
    else (k', c') :: addTerm rest k c

def addTerms (a b : List (Key × Cyc)) : List (Key × Cyc) := b.foldl (fun acc (k, c) => addTerm acc k c) a

def scale (z : Cyc) (ts : List (Key × Cyc)) : List (Key × Cyc) :=
  if z.isZero then [] else ts.map (fun (k, c) => (k, z * c))

/-- i^p -/
def iPow (p : Nat) : Cyc := match p % 4 with | 0 => 1 | 1 => Cyc.I | 2 => -1 | _ => -Cyc.I

/-- product of two Pauli words given as sorted (index, code) lists: merged word and exponent of i -/
def mulWord : Key → Key → Key × Nat
  | [], ys => (ys, 0)
  | xs, [] => (xs, 0)
  | (i, a) :: xs, (j, b) :: ys =>
    if i < j then let (r, p) := mulWord xs ((j, b) :: ys); ((i, a) :: r, p)
    else if j < i then let (r, p) := mulWord ((i, a) :: xs) ys; ((j, b) :: r, p)
    else
      let (c, p1) := PauliAlg.mul1 a b
      let (r, p) := mulWord xs ys
      (if c == 0 then r else (i, c) :: r, (p1 + p) % 4)
termination_by xs ys => xs.length + ys.length

def mulKey (kind : OpKind) (a b : Key) : Key × Cyc :=
  match kind with
  | .fermion => (a ++ b, 1)
  | .qubit => let (w, p) := mulWord a b; (w, iPow p)

def mulTerms (kind : OpKind) (a b : List (Key × Cyc)) : List (Key × Cyc) :=
  a.foldl (fun acc (ka, ca) => b.foldl (fun acc2 (kb, cb) =>
    let (k, ph) := mulKey kind ka kb
    addTerm acc2 k (ca * cb * ph)) acc) []

end SymOp
end Tangelo
