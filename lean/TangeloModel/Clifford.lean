import TangeloModel.Gate
/-! Clifford decomposition table check (C09): every row of the table regenerated from
`decompose_gate_to_cliffords` equals its rotation up to a 16th root of unity. -/
namespace Tangelo.Clifford

def m2mul (m n : M2 Cyc) : M2 Cyc := M2.mul m n
def m2smul (z : Cyc) (m : M2 Cyc) : M2 Cyc := ⟨z * m.a, z * m.b, z * m.c, z * m.d⟩
def m2eq (m n : M2 Cyc) : Bool := m.a == n.a && m.b == n.b && m.c == n.c && m.d == n.d

def namedMatrix : String → Option (M2 Cyc)
  | "H" => some (baseMatrix cycConsts .H 0)
  | "X" => some (baseMatrix cycConsts .X 0)
  | "Y" => some (baseMatrix cycConsts .Y 0)
  | "Z" => some (baseMatrix cycConsts .Z 0)
  | "S" => some (baseMatrix cycConsts .S 0)
  | "SDAG" => some ⟨1, 0, 0, -Cyc.I⟩
  | _ => none

def baseOfName : String → Option Base
  | "RX" => some .RX | "RY" => some .RY | "RZ" => some .RZ | "PHASE" => some .PHASE
  | _ => none

/-- the product of a gate list as one matrix (first gate acts first) -/
def product : List String → Option (M2 Cyc)
  | [] => some M2.one
  | g :: gs => do
    let m ← namedMatrix g
    let rest ← product gs
    pure (m2mul rest m)

def rowOk (row : String × Int × List String) : Bool :=
  match baseOfName row.1, product row.2.2 with
  | some b, some p =>
    let rot := baseMatrix cycConsts b (Ang.piQuarter row.2.1)
    (List.range 16).any (fun n => m2eq p (m2smul (Cyc.zetaPowNat n) rot))
  | _, _ => false

def allRowsOk : Bool := Tables.cliffordDecomp.all rowOk

end Tangelo.Clifford
