import TangeloModel.Sem
import TangeloModel.Generated.Tables
/-!
  Model of `tangelo/linq/gate.py`: construction/validation, `==`, `inverse`, and the
  documented semantics (`Gate.toOp`).
-/
namespace Tangelo

/-- a gate parameter as Python holds it: `""`, a number, or a string (symbol name) -/
inductive Param
  | none
  | ang (a : Ang)
  | sym (s : String)
deriving DecidableEq, Repr, Inhabited

structure Gate where
  name : String
  target : List Nat
  control : Option (List Nat)
  param : Param
  isVar : Bool
deriving DecidableEq, Repr, Inhabited

/-- what a caller may hand to `Gate(...)` as a qubit index -/
inductive RawIdx
  | int (i : Int)
  | other                -- float, str, bool … : `type(ind) != int`
deriving DecidableEq, Repr, Inhabited

inductive GateErr | value | type
deriving DecidableEq, Repr, Inhabited

namespace Gate

/-- `len(qs) != len(set(qs))` -/
def hasDup : List Nat → Bool
  | [] => false
  | x :: xs => xs.contains x || hasDup xs

def checkIdx : List RawIdx → Option (List Nat)
  | [] => some []
  | .int i :: rest => if i < 0 then Option.none else (checkIdx rest).map (i.toNat :: ·)
  | .other :: _ => Option.none

/-- number of targets the name demands (custom names: whatever was given) -/
def expectedTargets (nm : String) (given : Nat) : Nat :=
  if Tables.oneTargetGates.contains nm then 1
  else if Tables.twoTargetGates.contains nm then 2 else given

/-- `Gate.__init__` : every rejection rule, in the order the code applies them.
    `name = none` models a non-string name. -/
def mk? (name : Option String) (target : List RawIdx) (control : Option (List RawIdx))
    (param : Param) (isVar : Bool) : Except GateErr Gate :=
  match checkIdx target with
  | Option.none => .error .value
  | some tgt =>
    match name with
    | Option.none => .error .type
    | some nm0 =>
      let nm := nm0.toUpper
      let ctlRes : Except GateErr (Option (List Nat)) :=
        match control with
        | Option.none => .ok Option.none
        | some cs =>
          if nm.front != 'C' then .error .value
          else match checkIdx cs with
            | Option.none => .error .value
            | some c => .ok (some c)
      match ctlRes with
      | .error e => .error e
      | .ok ctl =>
        if hasDup (tgt ++ ctl.getD []) then .error .value
        else if tgt.length != expectedTargets nm tgt.length then .error .value
        else .ok ⟨nm, tgt, ctl, param, isVar⟩

def qubits (g : Gate) : List Nat := g.target ++ g.control.getD []

/-- `Gate.inverse` : `none` models `AttributeError` -/
def inverse (g : Gate) : Option Gate :=
  if !Tables.invertibleGates.contains g.name then Option.none
  else if g.name == "T" then some { g with name := "PHASE", param := .ang (Ang.piQuarter (-1)) }
  else if g.name == "S" then some { g with name := "PHASE", param := .ang (Ang.piQuarter (-2)) }
  else match g.param with
    | .none => some g
    | .ang a => some { g with param := .ang (-a) }
    | .sym _ => Option.none

/-- Python's float `%` for a positive modulus -/
def pmod (a b : Float) : Float :=
  let r := a - b * Float.floor (a / b)
  if r < 0.0 then r + b else if r >= b then r - b else r

/-- distance of `a` to the nearest multiple of `b` -/
def distToMultiple (a b : Float) : Float :=
  let r := pmod a b
  if r < b - r then r else b - r

def twoPiF : Float := 2.0 * Ang.piF

def period (name : String) : Float :=
  if name == "CRX" || name == "CRY" || name == "CRZ" then 2.0 * twoPiF else twoPiF

def round7 (x : Float) : Float := Float.round (x * 1e7) / 1e7

/-- the value `round(θ % period, 7)` that `__eq__` compares, together with a margin
    telling how close the decision is to a discontinuity (float vs exact may then differ) -/
def eqKey (name : String) (a : Ang) : Float × Float :=
  let θ := a.toFloat
  let p := period name
  let r := pmod θ p
  let key := round7 r
  -- discontinuities: r near 0/p (wrap) and r·1e7 near a half-integer (rounding)
  let m1 := distToMultiple θ p
  let frac := pmod (r * 1e7 + 0.5) 1.0
  let m2 := (if frac < 1.0 - frac then frac else 1.0 - frac) / 1e7
  (key, if m1 < m2 then m1 else m2)

/-- `Gate.__eq__` (decision only) -/
def eqv (g h : Gate) : Bool :=
  let bothCnot := (g.name == "CNOT" || g.name == "CX") && (h.name == "CNOT" || h.name == "CX")
  let fieldsEq := (bothCnot || g.name == h.name) && g.target == h.target && g.control == h.control && g.isVar == h.isVar
  fieldsEq &&
  match g.param, h.param with
  | .ang a, .ang b =>
    -- exact zero difference is always equal; otherwise compare the rounded keys
    if a == b then true else (eqKey g.name a).1 == (eqKey h.name b).1
  | .none, .none => true
  | .sym s, .sym t => s == t
  | _, _ => false

/-- margin of the `==` decision (∞ when no float comparison is involved) -/
def eqvMargin (g h : Gate) : Float :=
  match g.param, h.param with
  | .ang a, .ang b =>
    if a == b then 1.0 else
      let (ka, ma) := eqKey g.name a
      let (kb, mb) := eqKey h.name b
      let d := Float.abs (pmod a.toFloat (period g.name) - pmod b.toFloat (period h.name))
      -- if the two remainders are far apart the verdict "different" is robust
      if ka != kb && d > 1e-6 && d < period g.name - 1e-6 then 1.0 else (if ma < mb then ma else mb)
  | _, _ => 1.0

/-- how a supported gate name is to be read -/
inductive Shape
  | one1 (b : Base)      -- one-qubit matrix, no control allowed
  | oneC (b : Base)      -- one-qubit matrix on the target, applied when all controls are 1
  | swap | cswap | xx
deriving DecidableEq, Repr, Inhabited

/-- the documented gate set (the specification side of C01; hand-written, not generated) -/
def shapeOf : String → Option Shape
  | "H" => some (.one1 .H) | "X" => some (.one1 .X) | "Y" => some (.one1 .Y) | "Z" => some (.one1 .Z)
  | "S" => some (.one1 .S) | "T" => some (.one1 .T)
  | "RX" => some (.one1 .RX) | "RY" => some (.one1 .RY) | "RZ" => some (.one1 .RZ) | "PHASE" => some (.one1 .PHASE)
  | "CNOT" => some (.oneC .X) | "CX" => some (.oneC .X) | "CY" => some (.oneC .Y) | "CZ" => some (.oneC .Z)
  | "CH" => some (.oneC .H)
  | "CRX" => some (.oneC .RX) | "CRY" => some (.oneC .RY) | "CRZ" => some (.oneC .RZ) | "CPHASE" => some (.oneC .PHASE)
  | "SWAP" => some .swap | "CSWAP" => some .cswap | "XX" => some .xx
  | _ => Option.none

def baseOp (b : Base) (t : Nat) (cs : List Nat) : Param → Option Op
  | .ang θ => some (Op.one b θ t cs)
  | _ => if b.parametrized then Option.none else some (Op.one b 0 t cs)

def shapeToOp : Shape → List Nat → Option (List Nat) → Param → Option Op
  | .one1 b, [t], Option.none, p => baseOp b t [] p
  | .oneC b, [t], some cs, p => baseOp b t cs p
  | .swap, [a, b], Option.none, _ => some (Op.swap a b [])
  | .cswap, [a, b], some cs, _ => some (Op.swap a b cs)
  | .xx, [a, b], Option.none, .ang θ => some (Op.xx θ a b)
  | _, _, _, _ => Option.none

/-- The documented operation of a gate of the supported set (`none`: not a unitary
    gate of the supported set, or malformed for its name). -/
def toOp (g : Gate) : Option Op :=
  match shapeOf g.name with
  | Option.none => Option.none
  | some sh => shapeToOp sh g.target g.control g.param

end Gate

/-- operations of a gate list (`none` if some gate has no documented unitary) -/
def gatesToOps : List Gate → Option (List Op)
  | [] => some []
  | g :: gs => do
    let o ← g.toOp
    let os ← gatesToOps gs
    pure (o :: os)

end Tangelo
