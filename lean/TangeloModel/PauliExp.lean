import TangeloModel.Circuit
/-!
  Model of `tangelo/toolboxes/ansatz_generator/ansatz_utils.py` (C06):
  `exp_pauliword_to_gates`, `recursive_trotter_suzuki_decomposition` (orders 1, 2),
  `get_exponentiated_qubit_operator_circuit`, `trotterize` (qubit-operator input).
  A real coefficient `c` is an exact angle `γ : Ang` (its value in radians).
-/
namespace Tangelo

inductive Pauli | X | Y | Z
deriving DecidableEq, Repr, Inhabited

/-- openfermion term key: `((index, 'X'), ...)`, in the order stored (increasing index) -/
abbrev PWord := List (Nat × Pauli)

namespace PauliExp

/-- `pauli_op_to_gate(index, op, inverse)`; Z needs no basis change -/
def basisGate (idx : Nat) (p : Pauli) (inverse : Bool) : Option Gate :=
  match p with
  | .X => some ⟨"H", [idx], none, .none, false⟩
  | .Y => some ⟨"RX", [idx], none, .ang (if inverse then Ang.piQuarter (-2) else Ang.piQuarter 2), false⟩
  | .Z => none

def insertSorted (q : Nat) : List Nat → List Nat
  | [] => [q]
  | x :: xs => if q ≤ x then q :: x :: xs else x :: insertSorted q xs

def sortNat (l : List Nat) : List Nat := l.foldr insertSorted []

def cnotLadder : List Nat → List Gate
  | a :: b :: rest => ⟨"CNOT", [b], some [a], .none, false⟩ :: cnotLadder (b :: rest)
  | _ => []

/-- the rotation angle: `2c` if `c ≥ 0` else `4π + 2c` (`nonneg` is the float test `coef >= 0.`) -/
def rotAngle (γ : Ang) (nonneg : Bool) : Ang := if nonneg then γ + γ else Ang.piQuarter 16 + (γ + γ)

/-- `exp_pauliword_to_gates(pauli_word, coef, variational, control)`; `none` for an empty word
    (the code indexes `indices[-1]` and raises) -/
def gates (w : PWord) (γ : Ang) (nonneg : Bool) (variational : Bool) (control : Option (List Nat)) : Option (List Gate) :=
  let indices := sortNat (w.map (·.1))
  match indices.getLast? with
  | none => none
  | some last =>
    let pre := w.filterMap (fun (i, p) => basisGate i p false)
    let ladder := cnotLadder indices
    let rot : Gate := match control with
      | none => ⟨"RZ", [last], none, .ang (rotAngle γ nonneg), variational⟩
      | some cs => ⟨"CRZ", [last], some cs, .ang (rotAngle γ nonneg), variational⟩
    let post := w.reverse.filterMap (fun (i, p) => basisGate i p true)
    some (pre ++ ladder ++ [rot] ++ ladder.reverse ++ post)

/-- a term list with exact coefficients -/
abbrev Terms := List (PWord × Ang)

/-- `recursive_trotter_suzuki_decomposition(pauli_words, order, time)` for order 1 with an
    integer time, and order 2 (which halves the time: needs every coefficient·time to be even) -/
def decompose (ts : Terms) (order : Nat) (time : Int) : Option Terms :=
  if order == 1 then some (ts.map (fun (w, c) => (w, Ang.smulInt time c)))
  else if order == 2 then do
    let halves ← ts.mapM (fun (w, c) => (Ang.halve? (Ang.smulInt time c)).map (fun h => (w, h)))
    pure (halves ++ halves.reverse)
  else none

structure ExpOut where
  gates : List Gate
  /-- the returned global phase is `exp(-i·value(phaseAngle))` -/
  phaseAngle : Ang
deriving Repr

/-- decisions on a coefficient taken in floating point by the code -/
structure CoefDecide where
  nonneg : Ang → Bool          -- `coef >= 0.`
  keep : Ang → Bool            -- `abs(coef) > 1e-10`

/-- the gate emission loop of `get_exponentiated_qubit_operator_circuit` over already timed terms.
    `control`: `none`, or the list (an int control is the one-element list) -/
def emit (d : CoefDecide) (timed : Terms) (variational : Bool) (control : Option (List Nat)) : Option ExpOut :=
  timed.foldlM (fun (acc : ExpOut) (wc : PWord × Ang) =>
    let (w, c) := wc
    match w with
    | [] =>
      match control with
      | none => some { acc with phaseAngle := acc.phaseAngle + c }
      | some [q] => some { acc with gates := acc.gates ++ [⟨"PHASE", [q], none, .ang (-c), variational⟩] }
      | some (q :: cs) => some { acc with gates := acc.gates ++ [⟨"CPHASE", [q], some cs, .ang (-c), variational⟩] }
      | some [] => none
    | _ =>
      if d.keep c then
        (gates w c (d.nonneg c) variational control).map (fun g => { acc with gates := acc.gates ++ g })
      else some acc) { gates := [], phaseAngle := 0 }

end PauliExp
end Tangelo
