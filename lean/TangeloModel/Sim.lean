import TangeloModel.Sem
/-!
  Executable simulator: *tabulation* of the functional semantics `Op.sem` on an array of
  size 2ⁿ.  Index convention: bit `q` of the index is qubit `q`.
-/
namespace Tangelo

def bitsOf (idx : Nat) : Bits := fun q => idx.testBit q

def toIdx (n : Nat) (x : Bits) : Nat :=
  (List.range n).foldl (fun acc q => if x q then acc + 2 ^ q else acc) 0

abbrev SV := Array Cyc

def SV.lookup (n : Nat) (a : SV) : State Cyc := fun x => a.getD (toIdx n x) 0

/-- tabulate a state on n qubits -/
def tabulate (n : Nat) (ψ : State Cyc) : SV := Array.ofFn (n := 2 ^ n) fun idx => ψ (bitsOf idx.val)

def stepOp (n : Nat) (a : SV) (o : Op) : SV := tabulate n (o.sem cycConsts (a.lookup n))

def simOps (n : Nat) (ops : List Op) (a : SV) : SV := ops.foldl (stepOp n) a

def basisSV (n : Nat) (idx : Nat) : SV := Array.ofFn (n := 2 ^ n) fun j => if j.val = idx then 1 else 0

def SV.normSq (a : SV) : Cyc := a.foldl (fun acc z => acc + z * Cyc.conj z) 0

end Tangelo
