import TangeloModel.Circuit
/-!
  Export / import of circuits (C17): IonQ JSON records and ProjectQ command lines, as abstract syntax.
  Writers and readers mirror the if/elif chains of `translate_json_ionq.py` and `translate_projectq.py`;
  name dictionaries come from the tables regenerated from /repo.
-/
namespace Tangelo.Export

def lookup (d : List (String × String)) (k : String) : Option String := (d.find? (·.1 == k)).map (·.2)

/-! ## IonQ JSON -/
structure IonqRec where
  gate : String
  targets : List Nat
  controls : Option (List Nat)
  rotation : Option Param
deriving DecidableEq, Repr, Inhabited

def ionqWrite (g : Gate) : Option IonqRec :=
  match lookup Tables.ionqGates g.name with
  | none => none
  | some nm =>
    if ["H", "X", "Y", "Z", "S", "T", "SWAP"].contains g.name then some ⟨nm, g.target, none, none⟩
    else if ["RX", "RY", "RZ", "PHASE", "XX"].contains g.name then some ⟨nm, g.target, none, some g.param⟩
    else if ["CRX", "CRY", "CRZ", "CPHASE"].contains g.name then some ⟨nm, g.target, g.control, some g.param⟩
    else if ["CX", "CY", "CZ", "CNOT"].contains g.name then some ⟨nm, g.target, g.control, none⟩
    else none

/-- `str.upper()` on the gate names of the format (literal table, so that it computes symbolically) -/
def upperName : String → String
  | "h" => "H" | "x" => "X" | "y" => "Y" | "z" => "Z" | "s" => "S" | "t" => "T" | "swap" => "SWAP"
  | "rx" => "RX" | "ry" => "RY" | "rz" => "RZ" | "xx" => "XX"
  | s => s.toUpper

def ionqRead (r : IonqRec) : Option Gate :=
  let name0 := upperName r.gate
  let name := if name0 == "Z" && r.rotation.isSome then "PHASE" else name0
  match r.controls, r.rotation with
  | none, none => if ["H", "X", "Y", "Z", "S", "T", "SWAP"].contains name then some ⟨name, r.targets, none, .none, false⟩ else none
  | none, some p => if ["RX", "RY", "RZ", "PHASE", "XX"].contains name then some ⟨name, r.targets, none, p, false⟩ else none
  | some cs, some p => if ["RX", "RY", "RZ", "PHASE"].contains name then some ⟨"C" ++ name, r.targets, some cs, p, false⟩ else none
  | some cs, none => if ["X", "Y", "Z"].contains name then some ⟨"C" ++ name, r.targets, some cs, .none, false⟩ else none

/-- equality of gates as the round trip may preserve it: CNOT ≡ CX (the code's own `==`), the
    variational flag is not expressible in any of the formats -/
def sameGate (g h : Gate) : Bool :=
  let nm := fun (s : String) => if s == "CNOT" then "CX" else s
  nm g.name == nm h.name && g.target == h.target && g.control == h.control && g.param == h.param

/-- gate lists equal gate by gate in that sense -/
def sameGates : List Gate → List Gate → Bool
  | [], [] => true
  | g :: gs, h :: hs => sameGate g h && sameGates gs hs
  | _, _ => false

/-! ## ProjectQ command text, tokenised -/
structure PqLine where
  name : String
  param : Option Param
  qubits : List Nat        -- in the order they are printed
deriving DecidableEq, Repr, Inhabited

def pqWrite (g : Gate) : Option PqLine :=
  match lookup Tables.projectqGates g.name with
  | none => none
  | some nm =>
    if ["H", "X", "Y", "Z", "S", "T", "MEASURE"].contains g.name then g.target.head?.map (fun t => ⟨nm, none, [t]⟩)
    else if ["RX", "RY", "RZ", "PHASE"].contains g.name then g.target.head?.map (fun t => ⟨nm, some g.param, [t]⟩)
    else if g.name == "CNOT" then
      match g.control, g.target.head? with
      | some [c], some t => some ⟨nm, none, [c, t]⟩      -- several controls are refused
      | _, _ => none
    else none

/-- reverse dictionary lookup (`{v: k for k, v in GATE_PROJECTQ.items()}`: the last key wins) -/
def pqReverse (v : String) : Option String := ((Tables.projectqGates.filter (·.2 == v)).getLast?).map (·.1)

def pqRead (l : PqLine) : Option Gate :=
  if ["H", "X", "Y", "Z", "S", "T"].contains l.name then
    match pqReverse l.name, l.qubits with
    | some nm, q :: _ => some ⟨nm, [q], none, .none, false⟩
    | _, _ => none
  else if ["Rx", "Ry", "Rz", "R"].contains l.name then
    match pqReverse l.name, l.qubits, l.param with
    | some nm, q :: _, some p => some ⟨nm, [q], none, p, false⟩
    | _, _, _ => none
  else if l.name == "CX" then
    match pqReverse l.name, l.qubits with
    | some nm, [c, t] => some ⟨nm, [t], some [c], .none, false⟩
    | _, _ => none
  else none

/-! ## whole circuits: the register width travels with the gates -/

def mapOpt {α β : Type} (f : α → Option β) : List α → Option (List β)
  | [] => some []
  | a :: as => match f a, mapOpt f as with
    | some b, some bs => some (b :: bs)
    | _, _ => none

/-- `{"qubits": width, "circuit": [...]}` -/
structure IonqCirc where
  qubits : Nat
  circuit : List IonqRec
deriving DecidableEq, Repr, Inhabited

/-- `translate_c_to_json_ionq`: one unsupported gate refuses the whole circuit -/
def ionqWriteCirc (c : Circuit) : Option IonqCirc := (mapOpt ionqWrite c.gates).map (fun rs => ⟨c.width, rs⟩)

/-- `translate_c_from_json_ionq`: `Circuit(n_qubits=j["qubits"]) + Circuit(gates)` -/
def ionqReadCirc (j : IonqCirc) : Except Err Circuit :=
  match mapOpt ionqRead j.circuit with
  | none => .error .value
  | some gs => match Circuit.ofGates gs none with
    | .error e => .error e
    | .ok d => (Circuit.empty (some j.qubits)).add d

/-- ProjectQ program: the `Allocate | Qureg[i]` lines (their indices, in order) and the command lines -/
structure PqProg where
  allocs : List Nat
  lines : List PqLine
deriving DecidableEq, Repr, Inhabited

/-- `translate_c_to_projectq` -/
def pqWriteCirc (c : Circuit) : Option PqProg := (mapOpt pqWrite c.gates).map (fun ls => ⟨List.range c.width, ls⟩)

def maxIdx : List Nat → Option Nat
  | [] => none
  | a :: as => match maxIdx as with
    | none => some a
    | some m => some (max a m)

/-- `translate_c_from_projectq`: `Measure` lines are dropped, the register is `max(allocated) + 1` (none if nothing
    is allocated), then the gates are added one by one -/
def pqReadCirc (p : PqProg) : Except Err Circuit :=
  let n := (maxIdx p.allocs).map (· + 1)
  match mapOpt pqRead (p.lines.filter (fun l => l.name != "Measure")) with
  | none => .error .value
  | some gs => Circuit.ofGates gs n

/-- the gates of the supported set a format can express, with the shapes it can express them in -/
def ionqExpressible (g : Gate) : Bool :=
  (["H", "X", "Y", "Z", "S", "T", "SWAP"].contains g.name && g.control.isNone && g.param == .none) ||
  (["RX", "RY", "RZ", "PHASE", "XX"].contains g.name && g.control.isNone) ||
  (["CRX", "CRY", "CRZ", "CPHASE"].contains g.name && g.control.isSome) ||
  (["CX", "CY", "CZ", "CNOT"].contains g.name && g.control.isSome && g.param == .none)

def pqExpressible (g : Gate) : Bool :=
  (["H", "X", "Y", "Z", "S", "T"].contains g.name && g.control.isNone && g.target.length == 1 && g.param == .none) ||
  (["RX", "RY", "RZ", "PHASE"].contains g.name && g.control.isNone && g.target.length == 1) ||
  (g.name == "CNOT" && g.target.length == 1 && (g.control.map List.length) == some 1 && g.param == .none)

end Tangelo.Export
