import TangeloModel.PauliExp
/-!
  Pauli algebra and the array ("multiform") representation of qubit operators (C16, C14, C18).
  Integer code of `multiformoperator.py`:  I=0, Z=1, X=2, Y=3; binary (x|z): I=(0,0) Z=(0,1) X=(1,0) Y=(1,1).
  Phases are exponents of i, modulo 4.
-/
namespace Tangelo

/-- single-qubit Pauli incl. identity, by its integer code -/
abbrev PCode := Nat      -- 0,1,2,3

namespace PauliAlg

/-- product of two single-qubit Paulis: (code of the result, exponent of i) — the symbolic rule
    X·Y = iZ, Y·Z = iX, Z·X = iY and the reverse orders with −i -/
def mul1 (a b : PCode) : PCode × Nat :=
  match a % 4, b % 4 with
  | 0, b => (b, 0)
  | a, 0 => (a, 0)
  | 1, 1 => (0, 0) | 2, 2 => (0, 0) | 3, 3 => (0, 0)
  | 2, 3 => (1, 1)      -- X·Y = iZ
  | 3, 2 => (1, 3)      -- Y·X = −iZ
  | 3, 1 => (2, 1)      -- Y·Z = iX
  | 1, 3 => (2, 3)      -- Z·Y = −iX
  | 1, 2 => (3, 1)      -- Z·X = iY
  | 2, 1 => (3, 3)      -- X·Z = −iY
  | _, _ => (0, 0)

/-- symplectic form of two single-qubit Paulis: a_x b_z + a_z b_x  (mod 2) -/
def form1 (a b : PCode) : Nat :=
  let ax := (a / 2) % 2; let az := a % 2; let bx := (b / 2) % 2; let bz := b % 2
  (ax * bz + az * bx) % 2

/-- a Pauli word on n qubits as a row of codes -/
abbrev Row := List PCode

/-- product of two rows of the same length: XOR of the codes, phases added (what `__mul__` computes
    with `integer ^ other.integer` and the `c_calc` table) -/
def mulRow : Row → Row → Row × Nat
  | a :: as, b :: bs =>
    let (c, p) := mul1 a b
    let (cs, ps) := mulRow as bs
    (c :: cs, (p + ps) % 4)
  | _, _ => ([], 0)

/-- `do_commute` on one pair of rows: they commute iff Σ (a_x b_z + a_z b_x) is even -/
def formRow : Row → Row → Nat
  | a :: as, b :: bs => (form1 a b + formRow as bs) % 2
  | _, _ => 0

def commuteRow (a b : Row) : Bool := formRow a b == 0

/-- term-resolved `do_commute(A, B)`: for each row of A, does it commute with every row of B -/
def doCommuteResolved (A B : List Row) : List Bool := A.map (fun a => B.all (fun b => commuteRow a b))
/-- overall `do_commute(A, B)` -/
def doCommute (A B : List Row) : Bool := (doCommuteResolved A B).all id

end PauliAlg
end Tangelo
