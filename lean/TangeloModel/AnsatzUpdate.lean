/-!
  Bookkeeping of in-place ansatz parameter updates (C07), over an abstract generator output.

  `order`   : the Pauli words in the order their variational gates were emitted at build time
  a block   : the variational gates of one layer occupy positions off .. off + order.length − 1
              of the flat list of variational-gate parameters
  update    : for every (word, coefficient) of the new generator output, the gate at
              `off + index of the word in order` receives the new angle
-/
namespace Tangelo.AnsatzUpdate

variable {W A P : Type} [DecidableEq W]

/-- parameters a fresh build writes for one layer -/
def buildBlock (ang : A → P) (order : List W) (coef : W → A) : List P := order.map (fun w => ang (coef w))

/-- `update_var_params` for one layer: word ↦ index table with an offset -/
def updateBlock (ang : A → P) (order : List W) (off : Nat) (ps : List P) (gen : List (W × A)) : List P :=
  gen.foldl (fun p (wc : W × A) => p.set (off + order.idxOf wc.1) (ang wc.2)) ps

/-- coefficient of a word in a generator output (first occurrence) -/
def coefOf (dflt : A) (gen : List (W × A)) (w : W) : A :=
  match gen.find? (fun wc => wc.1 == w) with
  | some wc => wc.2
  | none => dflt

/-- offsets as the code computed them before the repair: offset of layer k+1 = size of layer k -/
def buggyOffsets : List Nat → List Nat
  | [] => []
  | sizes => 0 :: sizes.dropLast

/-- cumulative offsets: offset of layer k = total size of the layers before it -/
def cumOffsets (sizes : List Nat) : List Nat := (List.range sizes.length).map (fun k => (sizes.take k).sum)

/-! ### the ansatz object: recorded parameter vector and circuit, under `set_var_params` / `update_var_params` histories -/

/-- what the caller can observe of an ansatz: the recorded vector and the parameters the circuit holds -/
structure Obj (V C : Type) where
  var : V
  circ : C

inductive Call (V : Type) where
  | set (θ : V)        -- `set_var_params`: records the vector, leaves the circuit alone
  | update (θ : V)     -- `update_var_params`: records the vector and writes it into the circuit

/-- `write c θ`: the in-place update of the circuit parameters (for the block layout: `updateBlock`) -/
def Obj.step {V C : Type} (write : C → V → C) (o : Obj V C) : Call V → Obj V C
  | .set θ => { o with var := θ }
  | .update θ => { var := θ, circ := write o.circ θ }

def Obj.run {V C : Type} (write : C → V → C) (o : Obj V C) (cs : List (Call V)) : Obj V C := cs.foldl (Obj.step write) o

/-- the vector of the last `update` of a history (`θ0` when there was none) -/
def lastUpdate {V : Type} (θ0 : V) : List (Call V) → V
  | [] => θ0
  | .set _ :: cs => lastUpdate θ0 cs
  | .update θ :: cs => lastUpdate θ cs

/-- a variant with the shortcut "nothing to do when the vector equals the recorded one" -/
def Obj.stepSkip {V C : Type} [DecidableEq V] (write : C → V → C) (o : Obj V C) : Call V → Obj V C
  | .set θ => { o with var := θ }
  | .update θ => if θ = o.var then o else { var := θ, circ := write o.circ θ }

end Tangelo.AnsatzUpdate
