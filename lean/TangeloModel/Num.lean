/-
  Exact amplitudes: the cyclotomic field ℚ(ζ₁₆) = ℚ[x]/(x⁸+1), x = exp(iπ/8).
  Contains i = x⁴, √2 = x² − x⁶, exp(iπ/4) = x².  Core `Rat` only (no Mathlib).
  GENERATED ONCE by a script (see DESIGN.md §3); hand-maintained afterwards.
-/
namespace Tangelo

@[ext] structure Cyc where

  c0 : Rat
  c1 : Rat
  c2 : Rat
  c3 : Rat
  c4 : Rat
  c5 : Rat
  c6 : Rat
  c7 : Rat
deriving DecidableEq, Repr, Inhabited

namespace Cyc

def ofRat (r : Rat) : Cyc := ⟨r, 0, 0, 0, 0, 0, 0, 0⟩
instance : Zero Cyc := ⟨ofRat 0⟩
instance : One Cyc := ⟨ofRat 1⟩
instance : OfNat Cyc 0 := ⟨ofRat 0⟩
instance : OfNat Cyc 1 := ⟨ofRat 1⟩
def add (a b : Cyc) : Cyc := ⟨a.c0 + b.c0, a.c1 + b.c1, a.c2 + b.c2, a.c3 + b.c3, a.c4 + b.c4, a.c5 + b.c5, a.c6 + b.c6, a.c7 + b.c7⟩
def neg (a : Cyc) : Cyc := ⟨-a.c0, -a.c1, -a.c2, -a.c3, -a.c4, -a.c5, -a.c6, -a.c7⟩
def sub (a b : Cyc) : Cyc := ⟨a.c0 - b.c0, a.c1 - b.c1, a.c2 - b.c2, a.c3 - b.c3, a.c4 - b.c4, a.c5 - b.c5, a.c6 - b.c6, a.c7 - b.c7⟩
def mul (a b : Cyc) : Cyc :=
  ⟨a.c0 * b.c0 - a.c1 * b.c7 - a.c2 * b.c6 - a.c3 * b.c5 - a.c4 * b.c4 - a.c5 * b.c3 - a.c6 * b.c2 - a.c7 * b.c1,
   a.c0 * b.c1 + a.c1 * b.c0 - a.c2 * b.c7 - a.c3 * b.c6 - a.c4 * b.c5 - a.c5 * b.c4 - a.c6 * b.c3 - a.c7 * b.c2,
   a.c0 * b.c2 + a.c1 * b.c1 + a.c2 * b.c0 - a.c3 * b.c7 - a.c4 * b.c6 - a.c5 * b.c5 - a.c6 * b.c4 - a.c7 * b.c3,
   a.c0 * b.c3 + a.c1 * b.c2 + a.c2 * b.c1 + a.c3 * b.c0 - a.c4 * b.c7 - a.c5 * b.c6 - a.c6 * b.c5 - a.c7 * b.c4,
   a.c0 * b.c4 + a.c1 * b.c3 + a.c2 * b.c2 + a.c3 * b.c1 + a.c4 * b.c0 - a.c5 * b.c7 - a.c6 * b.c6 - a.c7 * b.c5,
   a.c0 * b.c5 + a.c1 * b.c4 + a.c2 * b.c3 + a.c3 * b.c2 + a.c4 * b.c1 + a.c5 * b.c0 - a.c6 * b.c7 - a.c7 * b.c6,
   a.c0 * b.c6 + a.c1 * b.c5 + a.c2 * b.c4 + a.c3 * b.c3 + a.c4 * b.c2 + a.c5 * b.c1 + a.c6 * b.c0 - a.c7 * b.c7,
   a.c0 * b.c7 + a.c1 * b.c6 + a.c2 * b.c5 + a.c3 * b.c4 + a.c4 * b.c3 + a.c5 * b.c2 + a.c6 * b.c1 + a.c7 * b.c0⟩
def smul (r : Rat) (a : Cyc) : Cyc := ⟨r * a.c0, r * a.c1, r * a.c2, r * a.c3, r * a.c4, r * a.c5, r * a.c6, r * a.c7⟩
/-- complex conjugation: x ↦ x⁻¹ = −x⁷ -/
def conj (a : Cyc) : Cyc := ⟨a.c0, -a.c7, -a.c6, -a.c5, -a.c4, -a.c3, -a.c2, -a.c1⟩
instance : Add Cyc := ⟨add⟩
instance : Neg Cyc := ⟨neg⟩
instance : Sub Cyc := ⟨sub⟩
instance : Mul Cyc := ⟨mul⟩
/-- x = exp(iπ/8) -/
def zeta : Cyc := ⟨0, 1, 0, 0, 0, 0, 0, 0⟩
/-- i = x⁴ -/
def I : Cyc := ⟨0, 0, 0, 0, 1, 0, 0, 0⟩
/-- 1/√2 = (x² − x⁶)/2 -/
def rsqrt2 : Cyc := ⟨0, 0, 1/2, 0, 0, 0, -1/2, 0⟩
def half : Cyc := ofRat (1/2)

theorem add_def (a b : Cyc) : a + b = add a b := rfl
theorem neg_def (a : Cyc) : -a = neg a := rfl
theorem sub_def (a b : Cyc) : a - b = sub a b := rfl
theorem mul_def (a b : Cyc) : a * b = mul a b := rfl
theorem zero_def : (0 : Cyc) = ofRat 0 := rfl
theorem one_def : (1 : Cyc) = ofRat 1 := rfl

/-- xⁿ for n : Nat (n taken mod 16) -/
def zetaPowNat (n : Nat) : Cyc :=
  let m := n % 16
  let s : Rat := if m < 8 then 1 else -1
  let k := m % 8
  ⟨if k = 0 then s else 0, if k = 1 then s else 0, if k = 2 then s else 0, if k = 3 then s else 0,
   if k = 4 then s else 0, if k = 5 then s else 0, if k = 6 then s else 0, if k = 7 then s else 0⟩

/-- xⁿ for n : Int -/
def zetaPow (n : Int) : Cyc := zetaPowNat (n % 16).toNat

def npow (a : Cyc) : Nat → Cyc
  | 0 => 1
  | n + 1 => npow a n * a

def isZero (a : Cyc) : Bool := a == (0 : Cyc)

private def ratStr (r : Rat) : String :=
  if r.den == 1 then toString r.num else s!"{r.num}/{r.den}"

/-- canonical text form: eight `num/den` separated by spaces -/
def toStr (a : Cyc) : String :=
  " ".intercalate [ratStr a.c0, ratStr a.c1, ratStr a.c2, ratStr a.c3, ratStr a.c4, ratStr a.c5, ratStr a.c6, ratStr a.c7]

def coeffs (a : Cyc) : List Rat := [a.c0, a.c1, a.c2, a.c3, a.c4, a.c5, a.c6, a.c7]

def ofCoeffs : List Rat → Cyc
  | [a0, a1, a2, a3, a4, a5, a6, a7] => ⟨a0, a1, a2, a3, a4, a5, a6, a7⟩
  | [a0] => ofRat a0
  | [re, im] => ⟨re, 0, 0, 0, im, 0, 0, 0⟩
  | _ => 0

end Cyc
end Tangelo
