/-!
  Option dictionaries with defaults, as `combined_penalty` (C12) and `VQESolver.__init__` (C08) build them:
  a dictionary of defaults, updated with the caller's options.  Two disciplines: the defaults are created afresh
  (or copied) on every call, or one dictionary object is shared by all calls and updated in place.
-/
namespace Tangelo.Defaults

abbrev Dict (V : Type) := List (String × V)

def set {V : Type} (d : Dict V) (k : String) (v : V) : Dict V :=
  match d with
  | [] => [(k, v)]
  | (k', v') :: rest => if k' = k then (k', v) :: rest else (k', v') :: set rest k v

/-- `d.update(opts)` -/
def update {V : Type} (d : Dict V) (opts : Dict V) : Dict V := opts.foldl (fun acc kv => set acc kv.1 kv.2) d

/-- one call with per-call defaults: the effective options; the shared state (the module constant) is not touched -/
def callFresh {V : Type} (defaults : Dict V) (shared : Dict V) (opts : Dict V) : Dict V × Dict V := (shared, update defaults opts)

/-- one call that updates the shared dictionary in place and uses it -/
def callShared {V : Type} (shared : Dict V) (opts : Dict V) : Dict V × Dict V := let d := update shared opts; (d, d)

/-- effective options of the last call after a history of earlier calls -/
def afterHistoryFresh {V : Type} (defaults : Dict V) (history : List (Dict V)) (opts : Dict V) : Dict V :=
  (callFresh defaults (history.foldl (fun s o => (callFresh defaults s o).1) defaults) opts).2

def afterHistoryShared {V : Type} (defaults : Dict V) (history : List (Dict V)) (opts : Dict V) : Dict V :=
  (callShared (history.foldl (fun s o => (callShared s o).1) defaults) opts).2

end Tangelo.Defaults
