import TangeloModel.Num
/-!
  Exact angles.  θ = q·π/4 + Σⱼ kⱼ·αⱼ  where αⱼ = 2·atan2(sⱼ, cⱼ) for a fixed table of
  rational points (cⱼ, sⱼ) on the unit circle ("atoms").  Closed under +, −.
  `e θ = exp(iθ/2) = xᵠ · Πⱼ (cⱼ + i sⱼ)^{kⱼ}` is an element of `Cyc`, so every gate of the
  supported set has an exact matrix.  The αⱼ are pairwise rationally independent of π, so
  structural equality of `Ang` is equality of real numbers.
-/
namespace Tangelo

structure Ang where
  q : Int
  k0 : Int
  k1 : Int
  k2 : Int
  k3 : Int
  k4 : Int
  k5 : Int
deriving DecidableEq, Repr, Inhabited

namespace Ang
def zero : Ang := ⟨0, 0, 0, 0, 0, 0, 0⟩
instance : Zero Ang := ⟨zero⟩
def add (a b : Ang) : Ang := ⟨a.q + b.q, a.k0 + b.k0, a.k1 + b.k1, a.k2 + b.k2, a.k3 + b.k3, a.k4 + b.k4, a.k5 + b.k5⟩
def neg (a : Ang) : Ang := ⟨-a.q, -a.k0, -a.k1, -a.k2, -a.k3, -a.k4, -a.k5⟩
def smulInt (n : Int) (a : Ang) : Ang := ⟨n * a.q, n * a.k0, n * a.k1, n * a.k2, n * a.k3, n * a.k4, n * a.k5⟩
instance : Add Ang := ⟨add⟩
instance : Neg Ang := ⟨neg⟩
instance : Sub Ang := ⟨fun a b => add a (neg b)⟩
/-- n·π/4 -/
def piQuarter (n : Int) : Ang := ⟨n, 0, 0, 0, 0, 0, 0⟩
def pi : Ang := piQuarter 4
/-- exact halving, when every component is even -/
def halve? (a : Ang) : Option Ang :=
  if a.q % 2 == 0 && a.k0 % 2 == 0 && a.k1 % 2 == 0 && a.k2 % 2 == 0 && a.k3 % 2 == 0 && a.k4 % 2 == 0 && a.k5 % 2 == 0
  then some ⟨a.q / 2, a.k0 / 2, a.k1 / 2, a.k2 / 2, a.k3 / 2, a.k4 / 2, a.k5 / 2⟩ else none
def ks (a : Ang) : List Int := [a.k0, a.k1, a.k2, a.k3, a.k4, a.k5]
def ofList : List Int → Option Ang
  | [q, k0, k1, k2, k3, k4, k5] => some ⟨q, k0, k1, k2, k3, k4, k5⟩
  | _ => none
def toList (a : Ang) : List Int := a.q :: a.ks

/-- The atom table: half-angle points (c, s) with c² + s² = 1 (t-parametrisation
    c = (1−t²)/(1+t²), s = 2t/(1+t²) for t = 1/2, 1/3, 1/5, 2/3, 1/8000, 1/1500). -/
def atoms : List (Rat × Rat) :=
  [ (3/5, 4/5), (4/5, 3/5), (12/13, 5/13), (5/13, 12/13),
    (63999999/64000001, 16000/64000001), (2249999/2250001, 3000/2250001) ]

/-- αⱼ = 2·atan2(sⱼ,cⱼ) as IEEE doubles (decimal literals printed by Python's repr;
    the harness checks at start-up that its own table is bit-identical). -/
def atomFloats : List Float :=
  [ 1.8545904360032246, 1.2870022175865687, 0.789582239399523, 2.35201041419027,
    0.0004999999973958333, 0.0026666662716050434 ]

def piF : Float := 3.141592653589793

/-- the real value as a double, computed in the same operation order as the harness -/
def toFloat (a : Ang) : Float :=
  let base := Float.ofInt a.q * (piF / 4.0)
  (a.ks.zip atomFloats).foldl (fun acc (k, al) => acc + Float.ofInt k * al) base

def ptPow (c s : Rat) (k : Int) : Cyc :=
  let p : Cyc := ⟨c, 0, 0, 0, if k < 0 then -s else s, 0, 0, 0⟩
  Cyc.npow p k.natAbs

/-- e θ = exp(iθ/2) -/
def e (a : Ang) : Cyc :=
  (a.ks.zip atoms).foldl (fun acc (k, (c, s)) => acc * ptPow c s k) (Cyc.zetaPow a.q)

end Ang
end Tangelo
