/-!
  Bookkeeping of the variational solver (C08): which operator is the target, which parameters are in
  the ansatz, what each request evaluates.  Operators and parameter vectors are opaque identifiers; the
  numerical evaluation `E op θ` (backend expectation value of the solver's circuit) is a parameter.

  `operator_expectation` : save target / swap in the requested operator / write parameters / evaluate /
  restore (also when writing or evaluating raises).
-/
namespace Tangelo.Vqe

structure St where
  ham : Int                 -- target operator
  params : Option Nat       -- parameter vector currently written into the ansatz
  nLog : Nat                -- length of the energy log (`save_energies`)
deriving Repr, DecidableEq

/-- where a symmetry / operator request fails, if it does -/
inductive Fail | none | invalid | update | eval
deriving Repr, DecidableEq

inductive Req
  | energy (θ : Nat)
  | expect (op : Int) (θ : Nat) (f : Fail)
deriving Repr

inductive Out
  | energy (ham : Int) (θ : Nat)     -- the value E ham θ (+ deflation) is returned and logged
  | expect (op : Int) (θ : Nat)      -- the value E op θ is returned
  | raised
deriving Repr, DecidableEq

/-- `tmp_hamiltonian = self.qubit_hamiltonian; self.qubit_hamiltonian = operator` -/
def swapIn (s : St) (op : Int) : St × Int := ({ s with ham := op }, s.ham)

/-- `self.qubit_hamiltonian = tmp_hamiltonian` -/
def restore (s : St) (saved : Int) : St := { s with ham := saved }

/-- body of the request after the swap: write the parameters, evaluate; `false` = an exception was raised -/
def body (s : St) (θ : Nat) : Fail → St × Bool
  | .update => (s, false)
  | .eval => ({ s with params := some θ }, false)
  | _ => ({ s with params := some θ }, true)

def step (s : St) : Req → St × Out
  | .energy θ => ({ s with params := some θ, nLog := s.nLog + 1 }, .energy s.ham θ)
  | .expect op θ f =>
    if f = .invalid then (s, .raised)                       -- rejected before the swap
    else
      let (s1, saved) := swapIn s op
      let (s2, ok) := body s1 θ f
      -- the value returned is the evaluation of the *current* target, then `finally: restore`
      (restore s2 saved, if ok then .expect s2.ham θ else .raised)

/-- the same request without the `finally`: a failure after the swap leaves the requested operator in place -/
def stepNoRestore (s : St) : Req → St × Out
  | .energy θ => ({ s with params := some θ, nLog := s.nLog + 1 }, .energy s.ham θ)
  | .expect op θ f =>
    if f = .invalid then (s, .raised)
    else
      let (s1, saved) := swapIn s op
      let (s2, ok) := body s1 θ f
      if ok then (restore s2 saved, .expect s2.ham θ) else (s2, .raised)

def run (stp : St → Req → St × Out) (s : St) : List Req → St × List Out
  | [] => (s, [])
  | r :: rs =>
    let (s1, o) := stp s r
    let (s2, os) := run stp s1 rs
    (s2, o :: os)

/-- observable trace used by the correspondence check: after every request, (kind, target, params, log length) -/
def trace (s : St) : List Req → List (Out × St)
  | [] => []
  | r :: rs => let (s1, o) := step s r; (o, s1) :: trace s1 rs

/-- energy with deflation: the loop `energy += coeff * overlap_k` -/
def deflated {R : Type} [Add R] [Mul R] (base coeff : R) (overlaps : List R) : R :=
  overlaps.foldl (fun e o => e + coeff * o) base

/-- expectation value in the eigenbasis: Σ pᵢ λᵢ over (weight, eigenvalue) pairs -/
def weightedAvg {R : Type} [Add R] [Mul R] [OfNat R 0] (ps : List (R × R)) : R :=
  ps.foldl (fun acc pl => acc + pl.1 * pl.2) 0

end Tangelo.Vqe
