import TangeloModel.Sim
import TangeloModel.Circuit
/-!
  Model of the backend glue of `tangelo/linq/target/backend.py` used by C01/C02/C10:
  amplitude index ↔ bitstring (`_int_to_binstr`), statevector order, exact frequencies
  (`_statevector_to_frequencies` with `n_shots=None`).
-/
namespace Tangelo

inductive Order | lsqFirst | msqFirst
deriving DecidableEq, Repr, Inhabited

/-- the `n` binary digits of `i`, most significant first (`bin(i)` left-padded with zeros to
    `n` characters, for `i < 2ⁿ`) -/
def bitsMSB : Nat → Nat → List Bool
  | 0, _ => []
  | n + 1, i => bitsMSB n (i / 2) ++ [i % 2 == 1]

/-- `_int_to_binstr(i, n_qubits, use_ordering)` as a list of bits (character k of the string) -/
def intToBinstr (order : Order) (i n : Nat) (useOrdering : Bool) : List Bool :=
  if useOrdering && order == .lsqFirst then bitsMSB n i else (bitsMSB n i).reverse

def bitsToStr (l : List Bool) : String := String.ofList (l.map (fun b => if b then '1' else '0'))

/-- the backend's statevector array from the model's (model index: bit q = qubit q).
    lsq_first: qubit 0 is the most significant bit of the index; msq_first: the least. -/
def toBackendOrder (order : Order) (n : Nat) (a : SV) : SV :=
  match order with
  | .msqFirst => a
  | .lsqFirst => Array.ofFn (n := 2 ^ n) fun idx =>
      a.getD (toIdx n (fun q => idx.val.testBit (n - 1 - q))) 0

def fromBackendOrder (order : Order) (n : Nat) (a : SV) : SV := toBackendOrder order n a   -- bit reversal is an involution

/-- |z|² as a `Cyc` (real) -/
def Cyc.normSq (z : Cyc) : Cyc := z * Cyc.conj z

/-- numeric value of the real part (driver decisions only) -/
def Cyc.reF (z : Cyc) : Float :=
  let c := fun (k : Nat) => Float.cos (Float.ofNat k * Ang.piF / 8.0)
  let f := fun (r : Rat) => Float.ofInt r.num / Float.ofNat r.den
  f z.c0 + f z.c1 * c 1 + f z.c2 * c 2 + f z.c3 * c 3 + f z.c4 * c 4 + f z.c5 * c 5 + f z.c6 * c 6 + f z.c7 * c 7

/-- exact frequencies of a backend-ordered statevector: entries with |amp|² ≥ threshold, keyed by
    `_int_to_binstr(i, n)`; also the smallest distance of a probability to the threshold -/
def frequencies (order : Order) (n : Nat) (sv : SV) (thr : Float) : List (List Bool × Cyc) × Float :=
  (List.range sv.size).foldl (fun (acc : List (List Bool × Cyc) × Float) i =>
    let p := Cyc.normSq (sv.getD i 0)
    let pf := Cyc.reF p
    let m := Float.abs (pf - thr)
    let acc2 := if m < acc.2 then m else acc.2
    if pf - thr >= 0.0 then (acc.1 ++ [(intToBinstr order i n true, p)], acc2) else (acc.1, acc2)) ([], 1.0)

/-- `Backend.simulate` for a unitary circuit, exact mode: backend-ordered final statevector -/
def simulateExact (order : Order) (n : Nat) (ops : List Op) (init : Option SV) : SV :=
  let start : SV := match init with
    | some v => fromBackendOrder order n v
    | none => basisSV n 0
  toBackendOrder order n (simOps n ops start)

end Tangelo
