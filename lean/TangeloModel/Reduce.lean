import TangeloModel.Sem
/-!
  Qubit-reduction helpers (C14): classification of trivially-acting single-qubit gate lists
  (`trim_trivial_circuit`), the term rule of `trim_trivial_operator`, and the cumulative-norm loop of
  `frobenius_norm_compression`.
-/
namespace Tangelo.Reduce

/-- gate names the classification distinguishes -/
inductive GName | X | Y | Z | RX | RY | RZ | other
deriving DecidableEq, Repr

/-- a single-qubit gate as the classifier sees it: its name and the outcome of `is_bitflip_gate`
    (a float test on the parameter, an input of the model) -/
structure SG where
  name : GName
  flip : Bool
deriving DecidableEq, Repr

def SG.isZ (g : SG) : Bool := g.name = .Z || g.name = .RZ
def SG.isXflip (g : SG) : Bool := (g.name = .X || g.name = .RX) && g.flip

/-- `trim_trivial_circuit` for one unentangled qubit: the state it is declared to be in, `none` = kept -/
def classify : List SG → Option Bool
  | [] => some false
  | [g0] => if g0.isZ then some false else if g0.isXflip then some true else none
  | [g0, g1] =>
    if g1.isZ then (if g0.isZ then some false else none)
    else if g1.isXflip then
      (if g0.isXflip then some false else if g0.isZ then some true else none)
    else none
  | _ => none

inductive Letter | I | X | Y | Z
deriving DecidableEq, Repr

def Letter.ofChar : Char → Option Letter
  | 'I' => some .I | 'X' => some .X | 'Y' => some .Y | 'Z' => some .Z | _ => none
def Letter.toChar : Letter → Char
  | .I => 'I' | .X => 'X' | .Y => 'Y' | .Z => 'Z'

/-- `trim_trivial_operator` for one term given as a Pauli string: `none` = the term vanishes, otherwise
    the sign picked up and the new string.  `i` is the running count of qubits already handled (the code's
    `enumerate` index, used as an offset when positions are deleted). -/
def trimTermFrom (term : List Letter) (reindex : Bool) : Nat → List (Nat × Bool) → Int → List Letter → Option (Int × List Letter)
  | _, [], sign, new => some (sign, new)
  | i, (q, b) :: rest, sign, new =>
    match term[q]? with
    | some .X => none
    | some .Y => none
    | l =>
      let sign' := if l = some .Z && b then -sign else sign
      let new' := if reindex then new.eraseIdx (q - i) else new.set q .I
      trimTermFrom term reindex (i + 1) rest sign' new'

def trimTerm (term : List Letter) (states : List (Nat × Bool)) (reindex : Bool) : Option (Int × List Letter) :=
  trimTermFrom term reindex 0 states 1 term

/-- the reference meaning of "delete the trimmed positions": letters whose position is not trimmed, in order -/
def dropPositions (term : List Letter) (qs : List Nat) : List Letter :=
  (term.zipIdx.filter (fun p => !qs.contains p.2)).map Prod.fst

section
variable {K : Type} [Add K] [Mul K] [LT K] [DecidableLT K]

/-- keep-flags of `frobenius_norm_compression` over the coefficients sorted by magnitude:
    `sqrt(acc) > eps / 2^(n/2)` is `acc > eps² / 2^n` =: `thr2` -/
def frobKeep (thr2 : K) : K → List K → List Bool
  | _, [] => []
  | acc, c :: cs => let acc' := acc + c * c; decide (thr2 < acc') :: frobKeep thr2 acc' cs

/-- squared norm of the discarded coefficients -/
def discardedSq [OfNat K 0] (flags : List Bool) (cs : List K) : K :=
  ((cs.zip flags).filter (fun p => !p.2)).foldl (fun a p => a + p.1 * p.1) 0
end

end Tangelo.Reduce
