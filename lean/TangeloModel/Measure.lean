import TangeloModel.Backend
import TangeloModel.PauliExp
/-!
  Mid-circuit measurement, classical control, expectation values (C10, C02).

  A program is a list of `MGate`s.  Exact (n_shots = None) simulation conditioned on an outcome
  string keeps the *unnormalised* branch state; its squared norm is the branch probability.
-/
namespace Tangelo

/-- projection on qubit `q` having value `b` (unnormalised collapse) -/
def proj {R : Type} [Zero R] (q : Nat) (b : Bool) (ψ : State R) : State R := fun x => if x q = b then ψ x else 0

inductive MGate
  | op (g : Gate)
  | measure (q : Nat)
  | cmeasure (q : Nat) (on0 on1 : List MGate)    -- dictionary / function control: outcome ↦ gates
deriving Repr, Inhabited

/-- what `applied_gates` records -/
inductive Applied
  | gate (g : Gate)
  | meas (q : Nat) (b : Bool) (controlled : Bool)
deriving Repr, Inhabited

structure BranchOut where
  sv : SV
  applied : List Applied
  used : List Bool            -- outcomes consumed, in order
deriving Inhabited

def projSV (n : Nat) (q : Nat) (b : Bool) (a : SV) : SV := tabulate n (proj q b (a.lookup n))

/-- Specification semantics of a run conditioned on the outcome list `desired` (head = first measurement):
    gates are applied in order; a measurement projects; a controlled measurement projects and then runs
    the gate list selected by the outcome before continuing.  `fuel` bounds nesting. -/
def runBranch (n : Nat) : Nat → List MGate → List Bool → BranchOut → Option BranchOut
  | 0, _, _, _ => none
  | _ + 1, [], _, acc => some acc
  | fuel + 1, MGate.op g :: rest, des, acc =>
    match g.toOp with
    | none => none
    | some o => runBranch n fuel rest des { acc with sv := stepOp n acc.sv o, applied := acc.applied ++ [.gate g] }
  | fuel + 1, MGate.measure q :: rest, des, acc =>
    match des with
    | [] => none
    | b :: des' => runBranch n fuel rest des'
        { sv := projSV n q b acc.sv, applied := acc.applied ++ [.meas q b false], used := acc.used ++ [b] }
  | fuel + 1, MGate.cmeasure q on0 on1 :: rest, des, acc =>
    match des with
    | [] => none
    | b :: des' => runBranch n fuel ((if b then on1 else on0) ++ rest) des'
        { sv := projSV n q b acc.sv, applied := acc.applied ++ [.meas q b true], used := acc.used ++ [b] }

/-- ⟨ψ|φ⟩ -/
def SV.inner (a b : SV) : Cyc := (a.zip b).foldl (fun acc (x, y) => acc + Cyc.conj x * y) 0

def pauliOp (q : Nat) : Pauli → Op
  | .X => Op.one .X 0 q []
  | .Y => Op.one .Y 0 q []
  | .Z => Op.one .Z 0 q []

/-- ⟨ψ|P|ψ⟩ for a Pauli word (statevector route: apply the word as a circuit, take the overlap) -/
def expectWord (n : Nat) (a : SV) (w : PWord) : Cyc :=
  SV.inner a (simOps n (w.map (fun (q, p) => pauliOp q p)) a)

/-- ⟨ψ|H|ψ⟩ = Σ c_P ⟨ψ|P|ψ⟩ -/
def expectOp (n : Nat) (a : SV) (terms : List (PWord × Cyc)) : Cyc :=
  terms.foldl (fun acc (w, c) => acc + c * expectWord n a w) 0

/-- measurement-basis rotation of one factor, from the table regenerated from `measurement_basis_gates` -/
def measBasisOps (w : PWord) : List Op :=
  w.filterMap (fun (q, p) =>
    let letter := match p with | .X => "X" | .Y => "Y" | .Z => "Z"
    match Tables.measBasis.find? (·.1 == letter) with
    | some (_, nm, k) => (Gate.toOp ⟨nm, [q], none, .ang (Ang.piQuarter k), false⟩)
    | none => none)

/-- `get_expectation_value_from_frequencies_oneterm`: Σ_x (−1)^{|x ∧ mask|} f(x) over exact frequencies
    (model index: bit q = qubit q) -/
def expectFromProbs (n : Nat) (a : SV) (w : PWord) : Cyc :=
  (List.range a.size).foldl (fun acc i =>
    let par := w.foldl (fun p (q, _) => xor p (i.testBit q)) false
    let p := Cyc.normSq (a.getD i 0)
    if par then acc - p else acc + p) 0

/-- frequency route for one term: rotate into the measurement basis, then the parity rule -/
def expectWordFreqRoute (n : Nat) (a : SV) (w : PWord) : Cyc :=
  expectFromProbs n (simOps n (measBasisOps w) a) w

/-- `get_variance_from_frequencies_oneterm` on exact frequencies: Σ f (E − s)² -/
def varianceWord (n : Nat) (a : SV) (w : PWord) : Cyc :=
  let b := simOps n (measBasisOps w) a
  let e := expectFromProbs n b w
  (List.range b.size).foldl (fun acc i =>
    let par := w.foldl (fun p (q, _) => xor p (i.testBit q)) false
    let s : Cyc := if par then -1 else 1
    acc + Cyc.normSq (b.getD i 0) * ((e - s) * (e - s))) 0

end Tangelo

namespace Tangelo

/-- `split_frequency_dict_for_last_n_digits`: accumulate a value under a key of an association list -/
def addTo (d : List (List Bool × Rat)) (k : List Bool) (v : Rat) : List (List Bool × Rat) :=
  match d with
  | [] => [(k, v)]
  | (k', v') :: rest => if k' = k then (k', v' + v) :: rest else (k', v') :: addTo rest k v

def total (d : List (List Bool × Rat)) : Rat := (d.map (·.2)).sum

/-- the two marginal dictionaries (mid-circuit part, last `n` digits) -/
def splitLastN (freqs : List (List Bool × Rat)) (n : Nat) : List (List Bool × Rat) × List (List Bool × Rat) :=
  freqs.foldl (fun (acc : List (List Bool × Rat) × List (List Bool × Rat)) (kv : List Bool × Rat) =>
    let m := kv.1.length
    (addTo acc.1 (kv.1.take (m - n)) kv.2, addTo acc.2 (kv.1.drop (m - n)) kv.2)) ([], [])

end Tangelo
