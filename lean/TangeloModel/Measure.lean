import TangeloModel.Backend
import TangeloModel.PauliExp
/-!
  Mid-circuit measurement, classical control, expectation values (C10, C02).

  A program is a list of `MGate`s.  Exact (n_shots = None) simulation conditioned on an outcome
  string keeps the *unnormalised* branch state; its squared norm is the branch probability.
-/
namespace Tangelo

/-- projection on qubit `q` having value `b` (unnormalised collapse) -/
def proj {R : Type} [Zero R] (q : Nat) (b : Bool) (ψ : State R) : State R := fun x => if x q = b then ψ x else 0

inductive MGate
  | op (g : Gate)
  | measure (q : Nat)
  | cmeasure (q : Nat) (on0 on1 : List MGate)    -- dictionary / function control: outcome ↦ gates
deriving Repr, Inhabited

/-- what `applied_gates` records -/
inductive Applied
  | gate (g : Gate)
  | meas (q : Nat) (b : Bool) (controlled : Bool)
deriving Repr, Inhabited

structure BranchOut where
  sv : SV
  applied : List Applied
  used : List Bool            -- outcomes consumed, in order
deriving Inhabited

def projSV (n : Nat) (q : Nat) (b : Bool) (a : SV) : SV := tabulate n (proj q b (a.lookup n))

/-- Specification semantics of a run conditioned on the outcome list `desired` (head = first measurement):
    gates are applied in order; a measurement projects; a controlled measurement projects and then runs
    the gate list selected by the outcome before continuing.  `fuel` bounds nesting. -/
def runBranch (n : Nat) : Nat → List MGate → List Bool → BranchOut → Option BranchOut
  | 0, _, _, _ => none
  | _ + 1, [], _, acc => some acc
  | fuel + 1, MGate.op g :: rest, des, acc =>
    match g.toOp with
    | none => none
    | some o => runBranch n fuel rest des { acc with sv := stepOp n acc.sv o, applied := acc.applied ++ [.gate g] }
  | fuel + 1, MGate.measure q :: rest, des, acc =>
    match des with
    | [] => none
    | b :: des' => runBranch n fuel rest des'
        { sv := projSV n q b acc.sv, applied := acc.applied ++ [.meas q b false], used := acc.used ++ [b] }
  | fuel + 1, MGate.cmeasure q on0 on1 :: rest, des, acc =>
    match des with
    | [] => none
    | b :: des' => runBranch n fuel ((if b then on1 else on0) ++ rest) des'
        { sv := projSV n q b acc.sv, applied := acc.applied ++ [.meas q b true], used := acc.used ++ [b] }

/-- ⟨ψ|φ⟩ -/
def SV.inner (a b : SV) : Cyc := (a.zip b).foldl (fun acc (x, y) => acc + Cyc.conj x * y) 0

def pauliOp (q : Nat) : Pauli → Op
  | .X => Op.one .X 0 q []
  | .Y => Op.one .Y 0 q []
  | .Z => Op.one .Z 0 q []

/-- ⟨ψ|P|ψ⟩ for a Pauli word (statevector route: apply the word as a circuit, take the overlap) -/
def expectWord (n : Nat) (a : SV) (w : PWord) : Cyc :=
  SV.inner a (simOps n (w.map (fun (q, p) => pauliOp q p)) a)

/-- ⟨ψ|H|ψ⟩ = Σ c_P ⟨ψ|P|ψ⟩ -/
def expectOp (n : Nat) (a : SV) (terms : List (PWord × Cyc)) : Cyc :=
  terms.foldl (fun acc (w, c) => acc + c * expectWord n a w) 0

/-- measurement-basis rotation of one factor, from the table regenerated from `measurement_basis_gates` -/
def measBasisOps (w : PWord) : List Op :=
  w.filterMap (fun (q, p) =>
    let letter := match p with | .X => "X" | .Y => "Y" | .Z => "Z"
    match Tables.measBasis.find? (·.1 == letter) with
    | some (_, nm, k) => (Gate.toOp ⟨nm, [q], none, .ang (Ang.piQuarter k), false⟩)
    | none => none)

/-- the samples of one term on exact frequencies: for every basis state (model index: bit q = qubit q)
    the parity of the masked bitstring and the frequency -/
def sampleList (a : SV) (w : PWord) : List (Bool × Cyc) :=
  (List.range a.size).map (fun i => (w.foldl (fun p (q, _) => xor p (i.testBit q)) false, Cyc.normSq (a.getD i 0)))

/-- `get_expectation_value_from_frequencies_oneterm`: Σ_x (−1)^{|x ∧ mask|} f(x) -/
def expectSamples {R : Type} [Add R] [Sub R] [Zero R] (l : List (Bool × R)) : R :=
  l.foldl (fun acc (pf : Bool × R) => if pf.1 then acc - pf.2 else acc + pf.2) 0

/-- `get_variance_from_frequencies_oneterm`: Σ f (E − s)² with s = ±1 -/
def varianceSamples {R : Type} [Add R] [Sub R] [Mul R] [Neg R] [Zero R] [One R] (l : List (Bool × R)) : R :=
  let e := expectSamples l
  l.foldl (fun acc (pf : Bool × R) => acc + pf.2 * ((e - (if pf.1 then -1 else 1)) * (e - (if pf.1 then -1 else 1)))) 0

def expectFromProbs (_n : Nat) (a : SV) (w : PWord) : Cyc := expectSamples (sampleList a w)

/-- frequency route for one term: rotate into the measurement basis, then the parity rule -/
def expectWordFreqRoute (n : Nat) (a : SV) (w : PWord) : Cyc :=
  expectFromProbs n (simOps n (measBasisOps w) a) w

def varianceWord (n : Nat) (a : SV) (w : PWord) : Cyc :=
  varianceSamples (sampleList (simOps n (measBasisOps w) a) w)

/-- a row (letter, gate, k) of the measurement-basis table is right when B = gate(kπ/4) satisfies B†·Z·B = letter -/
def measBasisRowOk (row : String × String × Int) : Bool :=
  let P : Option (M2 Cyc) := match row.1 with
    | "X" => some (baseMatrix cycConsts .X 0) | "Y" => some (baseMatrix cycConsts .Y 0) | _ => none
  let b : Option Base := match row.2.1 with | "RX" => some .RX | "RY" => some .RY | "RZ" => some .RZ | _ => none
  match P, b with
  | some P, some b =>
    let B := baseMatrix cycConsts b (Ang.piQuarter row.2.2)
    let Bd := baseMatrix cycConsts b (Ang.piQuarter (-row.2.2))
    let M := M2.mul Bd (M2.mul (baseMatrix cycConsts .Z 0) B)
    M.a == P.a && M.b == P.b && M.c == P.c && M.d == P.d
  | _, _ => false

/-- X and Y are rotated as the table says and both are present; Z needs no rotation -/
def measBasisOk : Bool :=
  Tables.measBasis.all measBasisRowOk && (Tables.measBasis.map (·.1)) == ["X", "Y"]

end Tangelo

namespace Tangelo

/-- `split_frequency_dict_for_last_n_digits`: accumulate a value under a key of an association list -/
def addTo (d : List (List Bool × Rat)) (k : List Bool) (v : Rat) : List (List Bool × Rat) :=
  match d with
  | [] => [(k, v)]
  | (k', v') :: rest => if k' = k then (k', v' + v) :: rest else (k', v') :: addTo rest k v

def total (d : List (List Bool × Rat)) : Rat := (d.map (·.2)).sum

/-- the two marginal dictionaries (mid-circuit part, last `n` digits) -/
def splitLastN (freqs : List (List Bool × Rat)) (n : Nat) : List (List Bool × Rat) × List (List Bool × Rat) :=
  freqs.foldl (fun (acc : List (List Bool × Rat) × List (List Bool × Rat)) (kv : List Bool × Rat) =>
    let m := kv.1.length
    (addTo acc.1 (kv.1.take (m - n)) kv.2, addTo acc.2 (kv.1.drop (m - n)) kv.2)) ([], [])

end Tangelo
