/-!
  Partition of molecular orbitals into active / frozen, occupied / virtual
  (`convert_frozen_orbitals`, restricted case) and the active-electron bookkeeping
  (`n_active_ab_electrons`) (C04).
-/
namespace Tangelo.Frozen

inductive Spec
  | none
  | int (k : Int)
  | list (l : List Int)
deriving Repr

structure Partition where
  activeOcc : List Nat
  frozenOcc : List Nat
  activeVirt : List Nat
  frozenVirt : List Nat
deriving Repr, DecidableEq

def frozenList : Spec → List Int
  | .none => []
  | .int k => (List.range k.toNat).map Int.ofNat
  | .list l => l

def occupied (occ : List Nat) : List Nat := (List.range occ.length).filter (fun i => occ.getD i 0 > 0)
def virtuals (occ : List Nat) : List Nat := (List.range occ.length).filter (fun i => occ.getD i 0 == 0)

/-- `[i for i in frozen_orbitals if i in xs]` (Python list membership: a negative index is never a member) -/
def pick (frozen : List Int) (xs : List Nat) : List Nat :=
  frozen.filterMap (fun i => if 0 ≤ i ∧ xs.contains i.toNat then some i.toNat else none)

def classify (occ : List Nat) (spec : Spec) : Partition :=
  let fr := frozenList spec
  let fo := pick fr (occupied occ)
  let fv := pick fr (virtuals occ)
  { activeOcc := (occupied occ).filter (fun i => !fo.contains i),
    frozenOcc := fo,
    activeVirt := (virtuals occ).filter (fun i => !fv.contains i),
    frozenVirt := fv }

def nActiveElectrons (occ : List Nat) (p : Partition) : Nat := (p.activeOcc.map (fun i => occ.getD i 0)).sum

/-- `convert_frozen_orbitals`: `none` = ValueError -/
def partition (occ : List Nat) (spec : Spec) : Option Partition :=
  let p := classify occ spec
  let ne := nActiveElectrons occ p
  if ne = 0 then none
  else if ne = 2 * (p.activeOcc.length + p.activeVirt.length) then none
  else some p

/-- `n_active_ab_electrons` (restricted): -/
def nAlpha (n spin : Nat) : Nat := n / 2 + spin / 2 + n % 2
def nBeta (n spin : Nat) : Nat := n / 2 - spin / 2

end Tangelo.Frozen
