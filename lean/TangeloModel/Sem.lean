import TangeloModel.Ang
/-!
  Documented gate semantics, generic over the amplitude type `R`.
  A register is `Bits = Nat → Bool` (no width in the type: every statement holds for all
  register sizes), a state is `Bits → R`.
-/
namespace Tangelo

abbrev Bits := Nat → Bool
abbrev State (R : Type) := Bits → R

def Bits.set (x : Bits) (q : Nat) (b : Bool) : Bits := fun k => if k = q then b else x k
def Bits.flip (x : Bits) (q : Nat) : Bits := fun k => if k = q then !(x k) else x k
def Bits.swap (x : Bits) (a b : Nat) : Bits := fun k => if k = a then x b else if k = b then x a else x k
def Bits.zero : Bits := fun _ => false

/-- constants of the amplitude ring: `i`, `1/√2`, `1/2`, and `e θ = exp(iθ/2)` -/
structure Consts (R : Type) where
  i : R
  rsqrt2 : R
  half : R
  e : Ang → R

def cycConsts : Consts Cyc := ⟨Cyc.I, Cyc.rsqrt2, Cyc.half, Ang.e⟩

structure M2 (R : Type) where
  a : R
  b : R
  c : R
  d : R

section
variable {R : Type} [Add R] [Mul R] [Neg R] [Zero R] [One R]

def M2.mul (m n : M2 R) : M2 R :=
  ⟨m.a * n.a + m.b * n.c, m.a * n.b + m.b * n.d, m.c * n.a + m.d * n.c, m.c * n.b + m.d * n.d⟩
def M2.one : M2 R := ⟨1, 0, 0, 1⟩

/-- cos(θ/2) and sin(θ/2) from e(±θ) -/
def Consts.cosH (k : Consts R) (θ : Ang) : R := k.half * (k.e θ + k.e (-θ))
/-- −i·sin(θ/2) = (e(−θ) − e(θ))/2 -/
def Consts.misinH (k : Consts R) (θ : Ang) : R := k.half * (k.e (-θ) + -(k.e θ))
/-- sin(θ/2) = i·(−i sin) -/
def Consts.sinH (k : Consts R) (θ : Ang) : R := k.i * k.misinH θ

/-- the one-qubit matrices of the documented gate set -/
inductive Base | H | X | Y | Z | S | T | RX | RY | RZ | PHASE
deriving DecidableEq, Repr, Inhabited

def Base.parametrized : Base → Bool
  | .RX | .RY | .RZ | .PHASE => true
  | _ => false

def baseMatrix (k : Consts R) : Base → Ang → M2 R
  | .H, _ => ⟨k.rsqrt2, k.rsqrt2, k.rsqrt2, -k.rsqrt2⟩
  | .X, _ => ⟨0, 1, 1, 0⟩
  | .Y, _ => ⟨0, -k.i, k.i, 0⟩
  | .Z, _ => ⟨1, 0, 0, -1⟩
  | .S, _ => ⟨1, 0, 0, k.i⟩
  | .T, _ => ⟨1, 0, 0, k.e (Ang.piQuarter 2)⟩
  | .RX, θ => ⟨k.cosH θ, k.misinH θ, k.misinH θ, k.cosH θ⟩
  | .RY, θ => ⟨k.cosH θ, -k.sinH θ, k.sinH θ, k.cosH θ⟩
  | .RZ, θ => ⟨k.e (-θ), 0, 0, k.e θ⟩
  | .PHASE, θ => ⟨1, 0, 0, k.e θ * k.e θ⟩

/-- a 2×2 matrix acting on qubit `t` -/
def app1 (m : M2 R) (t : Nat) (ψ : State R) : State R := fun x =>
  if x t then m.c * ψ (x.set t false) + m.d * ψ (x.set t true)
  else m.a * ψ (x.set t false) + m.b * ψ (x.set t true)

/-- apply `f` on the subspace where every control bit is 1 -/
def ctl (cs : List Nat) (f : State R → State R) (ψ : State R) : State R := fun x =>
  if cs.all (fun c => x c) then f ψ x else ψ x

def appSwap (a b : Nat) (ψ : State R) : State R := fun x => ψ (x.swap a b)

/-- XX(θ) = exp(−iθ/2 X⊗X) = cos(θ/2)·1 − i sin(θ/2)·X⊗X -/
def appXX (k : Consts R) (θ : Ang) (a b : Nat) (ψ : State R) : State R := fun x =>
  k.cosH θ * ψ x + k.misinH θ * ψ ((x.flip a).flip b)

/-- abstract operation: what a gate of the supported set denotes -/
inductive Op
  | one (b : Base) (θ : Ang) (t : Nat) (cs : List Nat)
  | swap (a b : Nat) (cs : List Nat)
  | xx (θ : Ang) (a b : Nat)
deriving DecidableEq, Repr, Inhabited

def Op.sem (k : Consts R) : Op → State R → State R
  | .one b θ t cs => ctl cs (app1 (baseMatrix k b θ) t)
  | .swap a b cs => ctl cs (appSwap a b)
  | .xx θ a b => appXX k θ a b

def Op.qubits : Op → List Nat
  | .one _ _ t cs => t :: cs
  | .swap a b cs => a :: b :: cs
  | .xx _ a b => [a, b]

/-- semantics of a list of operations: left fold (first gate acts first) -/
def semOps (k : Consts R) (ops : List Op) (ψ : State R) : State R :=
  ops.foldl (fun acc o => o.sem k acc) ψ

end
end Tangelo
