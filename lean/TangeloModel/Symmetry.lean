import TangeloModel.JW
/-!
  Particle-number and spin-projection operators (`fermionic_operators.py`, C12).
-/
namespace Tangelo.Symmetry

/-- `get_spin_ordered(n_orbs, i, i, up_down)`: spin-orbital indices (up, down) of spatial orbital i -/
def spinOrbitals (nOrbs i : Nat) (upThenDown : Bool) : Nat × Nat :=
  if upThenDown then (i, i + nOrbs) else (2 * i, 2 * i + 1)

/-- `number_operator_list`: terms a†_p a_p with coefficient 1 -/
def numberList (nOrbs : Nat) (utd : Bool) : List (Nat × Rat) :=
  (List.range nOrbs).flatMap (fun i => let (u, d) := spinOrbitals nOrbs i utd; [(u, 1), (d, 1)])

/-- `spinz_operator_list`: +1/2 on up, −1/2 on down -/
def spinzList (nOrbs : Nat) (utd : Bool) : List (Nat × Rat) :=
  (List.range nOrbs).flatMap (fun i => let (u, d) := spinOrbitals nOrbs i utd; [(u, 1/2), (d, -1/2)])

/-- Σ_p c_p a†_p a_p acting on amplitudes -/
def applyDiag {R : Type} [Add R] [Mul R] [Neg R] [Zero R] [One R] (coef : Rat → R) (terms : List (Nat × Rat)) (ψ : State R) : State R :=
  fun x => terms.foldl (fun acc (p, c) => acc + coef c * JW.create p (JW.annihilate p ψ) x) 0

/-- eigenvalue of such an operator on the determinant x -/
def diagValue (terms : List (Nat × Rat)) (x : Bits) : Rat :=
  (terms.map (fun (p, c) => if x p then c else 0)).sum

end Tangelo.Symmetry
