/-!
  Quantum Fourier transform gate lists (`get_qft_circuit`), the iterative phase-estimation controller
  (`IterativeQPEControl`) and the bitstring → phase conversion (C20).
-/
namespace Tangelo.Qft

/-- gates the QFT generator emits; `A` is the angle type: `ang j` stands for π / 2^j -/
inductive QG (A : Type)
  | h (t : Nat)
  | cp (c t : Nat) (a : A)
  | swap (a b : Nat)
deriving DecidableEq, Repr

variable {A : Type}

/-- `append_qft_rotations_gates` on the reversed qubit list: the last listed qubit gets H, then a
    controlled phase from every earlier qubit `qs[i]` with angle π / 2^(n − i), then recursion on `qs[:n]` -/
def rotationsRev (ang : Nat → A) : List Nat → List (QG A)
  | [] => []
  | last :: restRev =>
    let rest := restRev.reverse
    let n := rest.length
    (QG.h last :: rest.zipIdx.map (fun qi => QG.cp qi.1 last (ang (n - qi.2)))) ++ rotationsRev ang restRev

def rotations (ang : Nat → A) (qs : List Nat) : List (QG A) := rotationsRev ang qs.reverse

/-- `swap_registers` -/
def swaps (qs : List Nat) : List (QG A) :=
  (List.range (qs.length / 2)).map (fun i => QG.swap (qs.getD i 0) (qs.getD (qs.length - i - 1) 0))

def QG.inv (neg : A → A) : QG A → QG A
  | .h t => .h t
  | .cp c t a => .cp c t (neg a)
  | .swap a b => .swap a b

/-- gate-by-gate inverse of a gate list -/
def invList (neg : A → A) (l : List (QG A)) : List (QG A) := (l.map (QG.inv neg)).reverse

/-- `get_qft_circuit` -/
def qft (ang : Nat → A) (neg : A → A) (qs : List Nat) (inverse swap : Bool) : List (QG A) :=
  let sw : List (QG A) := if swap then swaps qs else []
  if inverse then sw ++ ((rotations ang qs).map (QG.inv neg)).reverse
  else rotations ang qs ++ sw

/-! ## iterative phase estimation: the classical controller -/

/-- `IterativeQPEControl`: the accumulated feedback phase is `phaseNum / 2^n` -/
structure Ctl where
  n : Nat
  bitplace : Nat
  phaseNum : Nat
  record : List Bool
  started : Bool
deriving DecidableEq, Repr

def Ctl.init (n : Nat) : Ctl := ⟨n, n, 0, [], false⟩

/-- `return_gates(measurement)`: the new controller state and, when another round is issued, the power
    `bitplace` of the controlled unitary U^(2^bitplace) of that round -/
def Ctl.step (c : Ctl) (meas : Bool) : Ctl × Option Nat :=
  let c1 : Ctl := if c.started then { c with record := c.record ++ [meas] } else { c with started := true }
  if c1.bitplace > 0 then
    let c2 : Ctl := if meas then { c1 with phaseNum := c1.phaseNum + 2 ^ (c1.n - c1.bitplace) } else c1
    let c3 : Ctl := { c2 with bitplace := c2.bitplace - 1 }
    (c3, some c3.bitplace)
  else (c1, none)

/-- `finalize`: what is kept of a shot is its record; everything else is re-initialised -/
def Ctl.finalize (c : Ctl) : Ctl × List Bool := (Ctl.init c.n, c.record)

/-- the pre-repair seeded variant: the feedback phase survives into the next shot -/
def Ctl.finalizeKeepPhase (c : Ctl) : Ctl × List Bool := ({ Ctl.init c.n with phaseNum := c.phaseNum }, c.record)

/-- relative phase of the ancilla before the final H of a round, in units of π / 2^n, for an eigenstate
    with eigenphase m / 2^n:  kick-back 2π·(m/2^n)·2^bp  minus feedback π·phase·2^bp -/
def roundNum (m : Nat) (c : Ctl) (bp : Nat) : Int := (2 * (m : Int) - (c.phaseNum : Int)) * 2 ^ bp

/-- outcome of the round when it is certain: the relative phase is t·π, the ancilla is |t mod 2⟩ -/
def outcome (m : Nat) (c : Ctl) (bp : Nat) : Option Bool :=
  let num := roundNum m c bp
  if num % (2 ^ c.n : Int) = 0 then some ((num / (2 ^ c.n : Int)) % 2 = 1) else none

/-- one shot: first call with the (|0⟩) ancilla measurement, then one call per measured bit -/
def runShotFrom (m : Nat) : Nat → Ctl → Bool → Option Ctl
  | 0, _, _ => none
  | fuel + 1, c, meas =>
    match c.step meas with
    | (c', none) => some c'
    | (c', some bp) =>
      match outcome m c' bp with
      | some b => runShotFrom m fuel c' b
      | none => none

def runShot (m : Nat) (c : Ctl) : Option Ctl := runShotFrom m (c.n + 2) c false

/-- several shots with one controller object: the list of records -/
def runShots (fin : Ctl → Ctl × List Bool) (m : Nat) : Nat → Ctl → Option (List (List Bool))
  | 0, _ => some []
  | k + 1, c =>
    match runShot m c with
    | none => none
    | some c' =>
      let (c'', rec) := fin c'
      (runShots fin m k c'').map (fun rs => rec :: rs)

/-! ## bitstring → phase -/

/-- `energy_estimation`: Σ 0.5^(i+1) over the positions holding '1' -/
def binFrac : List Bool → Rat
  | [] => 0
  | b :: bs => (if b then 1 else 0) / 2 + binFrac bs / 2

def natOfLSB : List Bool → Nat
  | [] => 0
  | b :: bs => (if b then 1 else 0) + 2 * natOfLSB bs

end Tangelo.Qft
