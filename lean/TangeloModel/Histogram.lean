import TangeloModel.Measure
import TangeloModel.SymOp
/-!
  Histograms and measurement grouping (C18).  A histogram is an association list bitstring ↦ count
  (rational, so that counts and probabilities are both covered); keys are unique.
-/
namespace Tangelo.Hist

abbrev Hist := List (List Bool × Rat)

/-- `msq_first` reversal of every key -/
def reverseKeys (h : Hist) : Hist := h.map (fun (k, v) => (k.reverse, v))

/-- the bitstring without the positions in `idx` -/
def dropIdx (idx : List Nat) (k : List Bool) : List Bool := (k.zipIdx.filter (fun (_, i) => !idx.contains i)).map (·.1)

/-- `remove_qubit_indices(*idx)`: shorten every key, merge equal keys -/
def removeIdx (idx : List Nat) (h : Hist) : Hist := h.foldl (fun acc (kv : List Bool × Rat) => addTo acc (dropIdx idx kv.1) kv.2) []

def matchesExp (exp : List (Nat × Bool)) (k : List Bool) : Bool := exp.all (fun (q, b) => k[q]? == some b)

/-- `post_select(expected_outcomes)`: keep the matching bitstrings, then remove the selected positions -/
def postSelect (exp : List (Nat × Bool)) (h : Hist) : Hist := removeIdx (exp.map (·.1)) (h.filter (fun kv => matchesExp exp kv.1))

/-- `aggregate_histograms` (sum of `Counter`s: non-positive totals are dropped by `Counter.__add__`) -/
def aggregate (hs : List Hist) : Hist :=
  (hs.foldl (fun acc h => h.foldl (fun a (kv : List Bool × Rat) => addTo a kv.1 kv.2) acc) []).filter (fun kv => kv.2 > 0)

def parityOn (mask : List Nat) (k : List Bool) : Bool := mask.foldl (fun p q => xor p (k.getD q false)) false

/-- numerator of `get_expectation_value(term)`: Σ (−1)^{parity} · count -/
def signedSum (mask : List Nat) (h : Hist) : Rat := (h.map (fun (k, v) => if parityOn mask k then -v else v)).sum

def expectation (mask : List Nat) (h : Hist) : Rat := signedSum mask h / total h

/-- position of qubit `q` after the positions `idx` have been removed -/
def shiftIdx (idx : List Nat) (q : Nat) : Nat := q - (idx.eraseDups.filter (· < q)).length

/-! ## grouping certificate -/

/-- basis and term as (index, code) lists; qubit-wise compatible: where both act they agree -/
def qwcCompatible (basis term : Key) : Bool := term.all (fun (q, p) => basis.all (fun (q', p') => q != q' || p == p'))

/-- a term is diagonal in the basis when every factor of the term appears in the basis -/
def diagonalIn (basis term : Key) : Bool := term.all (fun f => basis.contains f)

/-- the grouping is a partition of the operator: merged group terms = operator terms, and every term is
    diagonal in its group's measurement basis -/
def checkGrouping (op : List (Key × Cyc)) (groups : List (Key × List (Key × Cyc))) : Bool :=
  let flat := groups.flatMap (·.2)
  (SymOp.addTerms [] flat == SymOp.addTerms [] op) &&
  (flat.map (·.1)).length == (flat.map (·.1)).eraseDups.length &&
  groups.all (fun (b, ts) => ts.all (fun (t, _) => diagonalIn b t))

end Tangelo.Hist
