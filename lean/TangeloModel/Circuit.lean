import TangeloModel.Gate
/-!
  Model of `tangelo/linq/circuit.py` as it is written: the circuit record with its
  incrementally maintained metadata, and every building / transformation operation.
  Python sets are sorted duplicate-free lists, dictionaries are association lists.
-/
namespace Tangelo

inductive Err | value | type | attr | key | index | other
deriving DecidableEq, Repr, Inhabited

def Err.toStr : Err → String
  | .value => "ERR:value" | .type => "ERR:type" | .attr => "ERR:attr"
  | .key => "ERR:key" | .index => "ERR:index" | .other => "ERR:other"

/-- dictionary `d[k] = d.get(k, 0) + 1` -/
def bump {α : Type} [DecidableEq α] (d : List (α × Nat)) (k : α) : List (α × Nat) :=
  match d with
  | [] => [(k, 1)]
  | (k', n) :: rest => if k' = k then (k', n + 1) :: rest else (k', n) :: bump rest k

def lookupD {α : Type} [DecidableEq α] (d : List (α × Nat)) (k : α) : Nat :=
  match d with
  | [] => 0
  | (k', n) :: rest => if k' = k then n else lookupD rest k

/-- insertion into a sorted duplicate-free list (a Python `set` of ints) -/
def setInsert (s : List Nat) (q : Nat) : List Nat :=
  match s with
  | [] => [q]
  | x :: xs => if q < x then q :: x :: xs else if q = x then x :: xs else x :: setInsert xs q

def setOfList (l : List Nat) : List Nat := l.foldl setInsert []

structure Circuit where
  gates : List Gate
  fixed : Option Nat                 -- `_qubits_simulated`
  indices : List Nat                 -- `_qubit_indices`
  counts : List (String × Nat)       -- `_gate_counts`
  nqCounts : List (Nat × Nat)        -- `_n_qubit_gate_counts`
  varIdx : List Nat                  -- positions in `gates` of the entries of `_variational_gates`
deriving DecidableEq, Repr, Inhabited

namespace Circuit

/-- Python truthiness of `n_qubits` -/
def truthy : Option Nat → Bool
  | some (n + 1) => (n + 1) > 0
  | _ => false

def empty (fixed : Option Nat) : Circuit :=
  { gates := [], fixed := fixed,
    indices := if truthy fixed then List.range (fixed.getD 0) else [],
    counts := [], nqCounts := [], varIdx := [] }

/-- the range check of `add_gate`: some qubit index is beyond the fixed width -/
def addGateBad (c : Circuit) (g : Gate) : Bool :=
  match c.fixed with
  | some n => truthy c.fixed && g.qubits.any (fun q => q ≥ n)
  | Option.none => false

/-- the bookkeeping of `add_gate` once the gate is accepted -/
def addGateCore (c : Circuit) (g : Gate) : Circuit :=
  { c with
    gates := c.gates ++ [g],
    varIdx := if g.isVar then c.varIdx ++ [c.gates.length] else c.varIdx,
    indices := g.qubits.foldl setInsert c.indices,
    counts := bump c.counts g.name,
    nqCounts := bump c.nqCounts g.qubits.length }

/-- `Circuit.add_gate` (the gate has already been constructed, i.e. validated) -/
def addGate (c : Circuit) (g : Gate) : Except Err Circuit :=
  if c.addGateBad g then .error .value else .ok (c.addGateCore g)

def addGates (c : Circuit) : List Gate → Except Err Circuit
  | [] => .ok c
  | g :: gs => match c.addGate g with
    | .error e => .error e
    | .ok c' => addGates c' gs

/-- `Circuit(gates, n_qubits=fixed)` -/
def ofGates (gs : List Gate) (fixed : Option Nat) : Except Err Circuit := (empty fixed).addGates gs

def size (c : Circuit) : Nat := c.gates.length
def width (c : Circuit) : Nat := match c.indices.getLast? with
  | some m => m + 1
  | Option.none => 0
def isVariational (c : Circuit) : Bool := !c.varIdx.isEmpty
def isMixedState (c : Circuit) : Bool := lookupD c.counts "MEASURE" > 0 || lookupD c.counts "CMEASURE" > 0
def varGates (c : Circuit) : List Gate := c.varIdx.filterMap (fun i => c.gates[i]?)

/-- `c1 + c2` -/
def add (c d : Circuit) : Except Err Circuit :=
  let n := if truthy c.fixed || truthy d.fixed then some (max c.width d.width) else Option.none
  ofGates (c.gates ++ d.gates) n

/-- `c * n` for an integer `n` -/
def mul (c : Circuit) (n : Int) : Except Err Circuit :=
  if n ≤ 0 then .error .value
  else ofGates (List.flatten (List.replicate n.toNat c.gates)) c.fixed

def copy (c : Circuit) : Except Err Circuit := ofGates c.gates c.fixed

/-- `Circuit.depth` : moments as the code builds them.  `latest` maps qubit ↦ moment. -/
def depth (c : Circuit) : Nat :=
  let step := fun (acc : Nat × List (Nat × Nat)) (g : Gate) =>
    let (nMom, latest) := acc
    let qs := g.qubits
    let look := fun q => (latest.find? (·.1 == q)).map (·.2)
    if nMom == 0 then (1, qs.map (fun q => (q, 0)) ++ latest)
    else
      -- b + 1 where b = max(latest.get(i, -1))
      let b1 := qs.foldl (fun m q => match look q with | some v => max m (v + 1) | Option.none => m) 0
      let latest' := qs.map (fun q => (q, b1)) ++ latest.filter (fun p => !qs.contains p.1)
      (if b1 < nMom then nMom else nMom + 1, latest')
  (c.gates.foldl step (0, [])).1

/-- one existing group against the group being built: if they share a qubit the group is absorbed and removed -/
def absorb (acc : List Nat × List (List Nat)) (qs : List Nat) : List Nat × List (List Nat) :=
  if qs.any (fun x => acc.1.contains x) then (qs.foldl setInsert acc.1, acc.2.filter (· != qs)) else acc

/-- one gate of `get_entangled_indices`: its qubits, merged with every existing group they touch, become the last group -/
def entStep (ent : List (List Nat)) (g : Gate) : List (List Nat) :=
  let r := ent.reverse.foldl absorb (setOfList g.qubits, ent)
  r.2 ++ [r.1]

/-- `get_entangled_indices` : list of sets, in the order the code leaves them -/
def entangledIndices (c : Circuit) : List (List Nat) := c.gates.foldl entStep []

def mapIdx (m : List (Nat × Nat)) (q : Nat) : Except Err Nat :=
  match m.find? (·.1 == q) with
  | some p => .ok p.2
  | Option.none => .error .key

def mapList (m : List (Nat × Nat)) : List Nat → Except Err (List Nat)
  | [] => .ok []
  | q :: qs => do
    let a ← mapIdx m q
    let b ← mapList m qs
    pure (a :: b)

def remapGate (m : List (Nat × Nat)) (g : Gate) : Except Err Gate := do
  let t ← mapList m g.target
  match g.control with
  | some (c :: cs) => do
    let c' ← mapList m (c :: cs)
    pure { g with target := t, control := some c' }
  | _ => pure { g with target := t }        -- `if g.control:` is false for None and []

def remapGates (m : List (Nat × Nat)) : List Gate → Except Err (List Gate)
  | [] => .ok []
  | g :: gs => do
    let a ← remapGate m g
    let b ← remapGates m gs
    pure (a :: b)

/-- `trim_qubits` (in place) -/
def trimQubits (c : Circuit) : Except Err Circuit := do
  let inUse := (c.entangledIndices.foldl (fun acc s => s.foldl setInsert acc) [])
  let m := inUse.zipIdx
  let gs ← remapGates m c.gates
  pure { c with gates := gs, indices := List.range inUse.length }

/-- `reindex_qubits(new_indices)` (in place); the set `_qubit_indices` is iterated in
    increasing order (true of CPython for the small non-negative ints used here) -/
def reindexQubits (c : Circuit) (newIdx : List Nat) : Except Err Circuit :=
  if newIdx.length != c.indices.length then .error .value
  else do
    let m := c.indices.zip newIdx
    let gs ← remapGates m c.gates
    pure { c with gates := gs, indices := setOfList newIdx }

/-- the qubit groups cover every gate and are pairwise disjoint: the hypothesis `GroupsOK` of the `split` theorem, in
    executable form (evaluated by the driver on every circuit whose entangled sets are requested) -/
def groupsOkB (ent : List (List Nat)) (gates : List Gate) : Bool :=
  gates.all (fun g => ent.any (fun s => g.qubits.all (fun q => s.contains q))) &&
  (List.range ent.length).all (fun i => (List.range ent.length).all (fun j =>
    i == j || ((ent.getD i []).all (fun q => !(ent.getD j []).contains q))))

/-- index of the first group that shares a qubit with the gate -/
def firstGroup (g : Gate) : Nat → List (List Nat) → Option Nat
  | _, [] => Option.none
  | i, s :: rest => if g.qubits.any (fun q => s.contains q) then some i else firstGroup g (i + 1) rest

/-- the gate is appended to the circuit of the first group it shares a qubit with -/
def placeGate (ent : List (List Nat)) (cs : List Circuit) (g : Gate) : Except Err (List Circuit) :=
  match firstGroup g 0 ent with
  | some i => match cs[i]? with
    | some ci => match ci.addGate g with
      | .ok ci' => Except.ok (cs.set i ci')
      | .error e => Except.error e
    | Option.none => Except.ok cs
  | Option.none => Except.ok cs

/-- `split(trim_qubits)` -/
def split (c : Circuit) (trim : Bool) : Except Err (List Circuit) := do
  let ent := c.entangledIndices
  let init := ent.map (fun _ => empty Option.none)
  let cs ← c.gates.foldlM (placeGate ent) init
  if trim then cs.mapM trimQubits else pure cs

/-- module-level `stack(*circuits)` -/
def stack (cs : List Circuit) : Except Err Circuit :=
  match cs with
  | [] => .ok (empty Option.none)
  | _ => do
    let trimmed ← cs.mapM trimQubits
    match trimmed with
    | [] => .ok (empty Option.none)
    | first :: rest =>
      rest.foldlM (fun (acc : Circuit) (c : Circuit) => do
        let c' ← c.reindexQubits ((List.range c.width).map (· + acc.width))
        acc.add c') first

def inverseGates : List Gate → Except Err (List Gate)
  | [] => .ok []
  | g :: gs => match g.inverse with
    | Option.none => .error .attr
    | some gi => do
      let rest ← inverseGates gs
      pure (gi :: rest)

/-- `Circuit.inverse` -/
def inverse (c : Circuit) : Except Err Circuit := do
  let gs ← inverseGates c.gates.reverse
  ofGates gs c.fixed

/-- `rot_gates` of `remove_small_rotations` (regenerated from the source of the working tree) -/
def rotSmallSet : List String := Tables.rotSmallSet
/-- `rot_gates` of `merge_rotations` (regenerated from the source of the working tree) -/
def rotMergeSet : List String := Tables.rotMergeSet

/-- value and margin of the test `abs(θ) % period < thr` -/
def smallTest (name : String) (a : Ang) (thr : Float) : Bool × Float :=
  let p := if name.startsWith "C" then 2.0 * Gate.twoPiF else Gate.twoPiF
  let r := Gate.pmod (Float.abs a.toFloat) p
  (r < thr, let m1 := Float.abs (r - thr); let m2 := if Float.abs a.toFloat < p / 2 then 1.0 else Gate.distToMultiple (Float.abs a.toFloat) p
            if m1 < m2 then m1 else m2)

/-- `remove_small_rotations(circuit, thr, remove_qubits)` with the decision abstracted -/
def removeSmallWith (isSmall : Gate → Bool) (c : Circuit) (removeQubits : Bool) : Except Err Circuit :=
  let gs := c.gates.filter (fun g => !(rotSmallSet.contains g.name && isSmall g))
  if removeQubits then ofGates gs Option.none else ofGates gs (some c.width)

def isSmallF (thr : Float) (g : Gate) : Bool :=
  match g.param with
  | .ang a => (smallTest g.name a thr).1
  | _ => false

def addParam : Param → Param → Except Err Param
  | .ang a, .ang b => .ok (.ang (a + b))
  | .sym s, .sym t => .ok (.sym (s ++ t))
  | .none, .none => .ok .none
  | .none, .sym t => .ok (.sym t)
  | .sym s, .none => .ok (.sym s)
  | _, _ => .error .type

/-- state of the `merge_rotations` loop: output gates (in order) and, per qubit, the
    position in the output of the last gate recorded for it (`none`: no gate yet) -/
structure MergeSt where
  out : Array Gate
  last : List (Nat × Nat)        -- qubit ↦ index into `out`

/-- the "record" branch: the gate is appended and becomes the last gate of each of its qubits -/
def MergeSt.record (st : MergeSt) (gate : Gate) : MergeSt :=
  let qs := gate.qubits
  let pos := st.out.size
  { out := st.out.push gate, last := qs.map (fun q => (q, pos)) ++ st.last.filter (fun p => !qs.contains p.1) }

def MergeSt.lastOf (st : MergeSt) (q : Nat) : Option Nat := (st.last.find? (·.1 == q)).map (·.2)

/-- one iteration of the `merge_rotations` loop (`width`: a qubit above it is a KeyError in the code) -/
def mergeStep (eqv : Gate → Gate → Bool) (width : Nat) (st : MergeSt) (gate : Gate) : Except Err MergeSt :=
  let qs := gate.qubits
  let prevs : List (Option Nat) := qs.map st.lastOf
  if qs.any (fun q => q ≥ width) then Except.error Err.key
  else if prevs.any (·.isNone) then Except.ok (st.record gate)
  else
    let prevGates := prevs.filterMap (fun p => p.bind (fun i => st.out[i]?))
    match prevGates, prevs with
    | g0 :: _, some i0 :: _ =>
      if prevGates.all (fun gg => eqv gg g0) then
        if rotMergeSet.contains gate.name && gate.name == g0.name && gate.target == g0.target && gate.control == g0.control then
          match addParam g0.param gate.param with
          | .ok p => Except.ok { st with out := st.out.set! i0 { g0 with isVar := g0.isVar || gate.isVar, param := p } }
          | .error e => Except.error e
        else Except.ok (st.record gate)
      else Except.ok (st.record gate)
    | _, _ => Except.ok (st.record gate)

/-- module-level `merge_rotations(circuit)`; `eqv` is the gate equality used by the code -/
def mergeRotationsWith (eqv : Gate → Gate → Bool) (c : Circuit) : Except Err Circuit := do
  let st ← c.gates.foldlM (mergeStep eqv c.width) { out := #[], last := [] }
  ofGates st.out.toList Option.none

/-- state of the `remove_redundant_gates` loop: per qubit the stack of gate positions (most recent first), and the
    positions marked for removal -/
abbrev RRSt := List (Nat × List Nat) × List Nat

def rrStackOf (stacks : List (Nat × List Nat)) (q : Nat) : List Nat :=
  match stacks.find? (·.1 == q) with
  | some (_, s) => s
  | Option.none => []

def rrTop (stacks : List (Nat × List Nat)) (q : Nat) : Option Nat := (rrStackOf stacks q).head?

/-- the loop over the qubits of the gate stops at the first qubit that fails; `.inverse()` may raise -/
def rrCheck (eqv : Gate → Gate → Bool) (gates : List Gate) (stacks : List (Nat × List Nat)) (gate : Gate) :
    List Nat → Except Err Bool
  | [] => .ok true
  | q :: rest => match rrTop stacks q with
    | Option.none => .ok false
    | some i => match gates[i]? with
      | Option.none => .ok false
      | some gp => match gp.inverse with
        | Option.none => .error Err.attr
        | some gpi => if eqv gpi gate then rrCheck eqv gates stacks gate rest else .ok false

def rrPush (gi : Nat) (stacks : List (Nat × List Nat)) (q : Nat) : List (Nat × List Nat) :=
  if stacks.any (·.1 == q) then stacks.map (fun (q', s) => if q' == q then (q', gi :: s) else (q', s))
  else (q, [gi]) :: stacks

/-- position of the gate the current one cancels: the top of the stack of its first qubit -/
def rrFirst (stacks : List (Nat × List Nat)) (qs : List Nat) : Nat :=
  match qs.head? with
  | some q => (rrTop stacks q).getD 0
  | Option.none => 0

/-- one iteration of the loop -/
def rrStep (eqv : Gate → Gate → Bool) (gates : List Gate) (width : Nat) (acc : RRSt) (p : Nat × Gate) : Except Err RRSt :=
  let (stacks, removed) := acc
  let (gi, gate) := p
  let qs := gate.qubits
  if qs.any (fun q => q ≥ width) then Except.error Err.key
  else
    match rrCheck eqv gates stacks gate qs with
    | .error e => Except.error e
    | .ok true =>
      let first := rrFirst stacks qs
      let stacks' := stacks.map (fun (q, s) => if qs.contains q then (q, s.drop 1) else (q, s))
      Except.ok (stacks', gi :: first :: removed)
    | .ok false => Except.ok (qs.foldl (rrPush gi) stacks, removed)

/-- module-level `remove_redundant_gates(circuit, remove_qubits)` -/
def removeRedundantWith (eqv : Gate → Gate → Bool) (c : Circuit) (removeQubits : Bool) : Except Err Circuit := do
  let (_, removed) ← (c.gates.zipIdx.map (fun (g, i) => (i, g))).foldlM (rrStep eqv c.gates c.width) ([], [])
  let gs := (c.gates.zipIdx.filter (fun (_, i) => !removed.contains i)).map (·.1)
  if removeQubits then ofGates gs Option.none else ofGates gs (some c.width)

/-- circuit equality `==` : gate lists equal (with `Gate.__eq__`) and same width -/
def eqvWith (eqv : Gate → Gate → Bool) (c d : Circuit) : Bool :=
  c.gates.length == d.gates.length && (c.gates.zip d.gates).all (fun (g, h) => eqv g h) && c.width == d.width

/-- module-level `simplify` -/
def simplifyWith (eqv : Gate → Gate → Bool) (isSmall : Gate → Bool) (c : Circuit) (maxCycles : Nat) (removeQubits : Bool) :
    Except Err Circuit := do
  let c0 ← c.copy
  let rec loop (fuel : Nat) (i : Nat) (cOld cNew : Circuit) : Except Err Circuit :=
    match fuel with
    | 0 => .ok cOld
    | fuel + 1 =>
      if i < maxCycles && !(eqvWith eqv cOld cNew) then do
        let m ← mergeRotationsWith eqv cOld
        let s ← removeSmallWith isSmall m removeQubits
        let r ← removeRedundantWith eqv s removeQubits
        loop fuel (i + 1) r cOld
      else .ok cOld
  loop (maxCycles + 1) 0 c0 (empty Option.none)

/-- the metadata a user can read, recomputed from the gate list alone -/
structure Meta where
  width : Nat
  size : Nat
  counts : List (String × Nat)
  nqCounts : List (Nat × Nat)
  isVar : Bool
  isMixed : Bool
deriving DecidableEq, Repr

end Circuit
end Tangelo
