/-!
  Reduced-density-matrix bookkeeping (C13): index placement of measured terms, spin summation,
  1-RDM padding with frozen orbitals.  Tensors are functions of their indices.
-/
namespace Tangelo.Rdm

variable {R : Type}

/-- `rdm2_spin[iele, lele, jele, kele] += <a†_i a†_j a_k a_l>` -/
def place2 (e : Nat → Nat → Nat → Nat → R) : Nat → Nat → Nat → Nat → R :=
  fun a b c d => e a c d b

/-- `two_electron_integrals.transpose(0, 3, 1, 2)` -/
def transpose0312 (g : Nat → Nat → Nat → Nat → R) : Nat → Nat → Nat → Nat → R :=
  fun a b c d => g a c d b

/-- the accumulation loop `out[i // 2, j // 2] += t[i, j]` over all pairs below `n` -/
def spinSumLoop [Add R] [OfNat R 0] (n : Nat) (t : Nat → Nat → R) : Nat → Nat → R :=
  ((List.range n).flatMap (fun i => (List.range n).map (fun j => (i, j)))).foldl
    (fun acc ij => fun p q => if p = ij.1 / 2 ∧ q = ij.2 / 2 then acc p q + t ij.1 ij.2 else acc p q)
    (fun _ _ => 0)

/-- `pad_rdms_with_frozen_orbitals_restricted`, one-particle part: zeros, 2 on the first `nOcc`
    diagonal entries, then the active block written at the active positions -/
def pad1 [OfNat R 0] [OfNat R 2] (nOcc : Nat) (active : List Nat) (one : Nat → Nat → R) : Nat → Nat → R :=
  fun p q =>
    if p ∈ active ∧ q ∈ active then one (active.idxOf p) (active.idxOf q)
    else if p = q ∧ p < nOcc then 2 else 0

end Tangelo.Rdm
