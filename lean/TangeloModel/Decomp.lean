/-!
  Problem decomposition bookkeeping (C15): ONIOM summation, link-atom placement, DMET atom
  re-ordering for nested fragment lists.
-/
namespace Tangelo.Decomp

/-- an ONIOM fragment after its solvers have run: low-level energy (0 when no low-level solver is
    given) and, for a model fragment, the high-level energy -/
structure Frag (R : Type) where
  eLow : R
  eHigh : Option R

/-- `Fragment.simulate`: E_high − E_low for a model, E_low for the system -/
def Frag.energy {R : Type} [Sub R] (f : Frag R) : R :=
  match f.eHigh with
  | some h => h - f.eLow
  | none => f.eLow

/-- `ONIOMProblemDecomposition.simulate`: the sum over the fragments, in the order given -/
def oniomTotal {R : Type} [Add R] [Sub R] [OfNat R 0] (fs : List (Frag R)) : R :=
  fs.foldl (fun acc f => acc + f.energy) 0

/-- `Link.relink` for a single atom: replacement = factor · (leaving − staying) + staying -/
def place {R : Type} [Add R] [Sub R] [Mul R] (staying leaving : R × R × R) (f : R) : R × R × R :=
  (f * (leaving.1 - staying.1) + staying.1, f * (leaving.2.1 - staying.2.1) + staying.2.1, f * (leaving.2.2 - staying.2.2) + staying.2.2)

/-- DMET, nested fragment lists: the new atom order and the fragment sizes -/
def reorder (frags : List (List Nat)) : List Nat × List Nat := (frags.flatten, frags.map List.length)

/-- the seeded slip: atoms taken from the *sorted* fragments, sizes from the user's order -/
def reorderSortedBad (sortFrags : List (List Nat) → List (List Nat)) (frags : List (List Nat)) : List Nat × List Nat :=
  ((sortFrags frags).flatten, frags.map List.length)

/-- block `i` of a flat list cut according to `sizes` -/
def block (flat : List Nat) (sizes : List Nat) (i : Nat) : List Nat :=
  (flat.drop ((sizes.take i).sum)).take (sizes.getD i 0)

/-! ### `ONIOMProblemDecomposition.distribute_atoms`: who gets which atoms

Atoms are integer points (the harness uses coordinates that are multiples of 10 and link factors `num/10`, so that
the capping position `factor·(leaving − staying) + staying` is an integer point too).  The loop of the code assigns
`fragment.geometry = self.geometry` (the SAME list object) to a fragment without atom selection and extends fragment
geometries in place with the capping atoms; the model keeps that aliasing: such a fragment is stored as `none` and
reads the system geometry as it is at the end. -/

abbrev Atom := Int × Int × Int

inductive Sel where
  | all                      -- `selected_atoms is None`
  | first (n : Nat)          -- an int: the first n atoms
  | idx (l : List Nat)       -- a list of atom indices
deriving Repr

structure LinkSpec where
  staying : Nat
  leaving : Nat
  num : Int                  -- factor = num / 10
deriving Repr

structure FragSpec where
  sel : Sel
  links : List LinkSpec
deriving Repr

/-- `Link.relink` for a single capping atom; `none`: an index outside the geometry (IndexError) -/
def capOf (geom : List Atom) (l : LinkSpec) : Option Atom :=
  match geom[l.staying]?, geom[l.leaving]? with
  | some s, some v => some (l.num * (v.1 - s.1) / 10 + s.1, l.num * (v.2.1 - s.2.1) / 10 + s.2.1, l.num * (v.2.2 - s.2.2) / 10 + s.2.2)
  | _, _ => none

def selectAtoms (geom : List Atom) : Sel → Option (List Atom)
  | .all => some geom
  | .first n => some (geom.take n)
  | .idx l => l.mapM (fun i => geom[i]?)

/-- what a fragment should receive, as a function of the system geometry and of ITS OWN specification only -/
def fragGeom (geom : List Atom) (f : FragSpec) : Option (List Atom) := do
  let sel ← selectAtoms geom f.sel
  let caps ← f.links.mapM (capOf geom)
  pure (sel ++ caps)

structure DistSt where
  sys : List Atom
  /-- `none`: the fragment holds the system list object itself -/
  frags : List (Option (List Atom))

/-- one iteration of the loop over the fragments, with the aliasing of the code -/
def distStep (st : DistSt) (f : FragSpec) : Option DistSt :=
  match f.sel with
  | .all =>
    -- `fragment.geometry += li.relink(self.geometry)` extends the system list itself, link after link
    (f.links.foldlM (fun (g : List Atom) li => (capOf g li).map (fun c => g ++ [c])) st.sys).map
      (fun g => { sys := g, frags := st.frags ++ [none] })
  | sel => do
    let own ← selectAtoms st.sys sel
    let caps ← f.links.mapM (capOf st.sys)
    pure { st with frags := st.frags ++ [some (own ++ caps)] }

/-- the geometries of all fragments after the loop (aliases resolved) -/
def distribute (geom : List Atom) (fs : List FragSpec) : Option (List (List Atom)) :=
  (fs.foldlM distStep { sys := geom, frags := [] }).map (fun st => st.frags.map (fun g => g.getD st.sys))

end Tangelo.Decomp
