/-!
  Problem decomposition bookkeeping (C15): ONIOM summation, link-atom placement, DMET atom
  re-ordering for nested fragment lists.
-/
namespace Tangelo.Decomp

/-- an ONIOM fragment after its solvers have run: low-level energy (0 when no low-level solver is
    given) and, for a model fragment, the high-level energy -/
structure Frag (R : Type) where
  eLow : R
  eHigh : Option R

/-- `Fragment.simulate`: E_high − E_low for a model, E_low for the system -/
def Frag.energy {R : Type} [Sub R] (f : Frag R) : R :=
  match f.eHigh with
  | some h => h - f.eLow
  | none => f.eLow

/-- `ONIOMProblemDecomposition.simulate`: the sum over the fragments, in the order given -/
def oniomTotal {R : Type} [Add R] [Sub R] [OfNat R 0] (fs : List (Frag R)) : R :=
  fs.foldl (fun acc f => acc + f.energy) 0

/-- `Link.relink` for a single atom: replacement = factor · (leaving − staying) + staying -/
def place {R : Type} [Add R] [Sub R] [Mul R] (staying leaving : R × R × R) (f : R) : R × R × R :=
  (f * (leaving.1 - staying.1) + staying.1, f * (leaving.2.1 - staying.2.1) + staying.2.1, f * (leaving.2.2 - staying.2.2) + staying.2.2)

/-- DMET, nested fragment lists: the new atom order and the fragment sizes -/
def reorder (frags : List (List Nat)) : List Nat × List Nat := (frags.flatten, frags.map List.length)

/-- the seeded slip: atoms taken from the *sorted* fragments, sizes from the user's order -/
def reorderSortedBad (sortFrags : List (List Nat) → List (List Nat)) (frags : List (List Nat)) : List Nat × List Nat :=
  ((sortFrags frags).flatten, frags.map List.length)

/-- block `i` of a flat list cut according to `sizes` -/
def block (flat : List Nat) (sizes : List Nat) (i : Nat) : List Nat :=
  (flat.drop ((sizes.take i).sum)).take (sizes.getD i 0)

end Tangelo.Decomp
