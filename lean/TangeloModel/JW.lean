import TangeloModel.SymOp
import TangeloModel.Measure
/-!
  Jordan-Wigner encoding and the spin re-ordering of `mapping_transform.py` (C03, C05, C12).
-/
namespace Tangelo.JW
open Tangelo.SymOp

/-- `make_up_then_down`: alternating index i ↦ i//2 (+ ⌈n/2⌉ for odd i) -/
def upThenDown (n i : Nat) : Nat := i / 2 + (if i % 2 == 1 then (n + 1) / 2 else 0)

def reorderKey (n : Nat) (utd : Bool) (k : Key) : Key := if utd then k.map (fun (i, d) => (upThenDown n i, d)) else k

/-- the Z string on the modes below j -/
def zString (j : Nat) : Key := (List.range j).map (fun k => (k, 1))

/-- JW of a_j (dagger = false) or a_j† : ½ X_j Z… ± (i/2) Y_j Z… -/
def ladder (j : Nat) (dagger : Bool) : List (Key × Cyc) :=
  [(zString j ++ [(j, 2)], Cyc.half), (zString j ++ [(j, 3)], if dagger then -(Cyc.half * Cyc.I) else Cyc.half * Cyc.I)]

/-- JW of a product of ladder operators -/
def mapKey : Key → List (Key × Cyc)
  | [] => [([], 1)]
  | (j, d) :: rest => mulTerms .qubit (addTerms [] (ladder j (d == 1))) (mapKey rest)

/-- `fermion_to_qubit_mapping(op, "JW", n, up_then_down)` on a term list -/
def jw (n : Nat) (utd : Bool) (ts : List (Key × Cyc)) : List (Key × Cyc) :=
  ts.foldl (fun acc (k, c) => addTerms acc (scale c (mapKey (reorderKey n utd k)))) []

/-! ## operator semantics of Pauli words and of the fermionic ladder operators -/

def factorOp (f : Nat × Nat) : Op :=
  match f.2 with
  | 1 => Op.one .Z 0 f.1 []
  | 2 => Op.one .X 0 f.1 []
  | _ => Op.one .Y 0 f.1 []

/-- a Pauli word acting on a state (factors on distinct qubits commute; they are applied in list order) -/
def wordSem {R : Type} [Add R] [Mul R] [Neg R] [Zero R] [One R] (k : Consts R) (w : Key) (ψ : State R) : State R :=
  semOps k (w.map factorOp) ψ

/-- sign of the occupied modes below j -/
def belowSign {R : Type} [Neg R] [One R] [Mul R] (j : Nat) (x : Bits) : R :=
  (List.range j).foldl (fun s q => if x q then -s else s) 1

/-- the fermionic annihilation operator on Fock-space amplitudes: (a_j ψ)(x) = sign · ψ(x + e_j) if mode j is empty in x -/
def annihilate {R : Type} [Neg R] [One R] [Mul R] [Zero R] (j : Nat) (ψ : State R) : State R :=
  fun x => if x j then 0 else belowSign j x * ψ (x.set j true)

/-- creation: (a_j† ψ)(x) = sign · ψ(x − e_j) if mode j is occupied in x -/
def create {R : Type} [Neg R] [One R] [Mul R] [Zero R] (j : Nat) (ψ : State R) : State R :=
  fun x => if x j then belowSign j x * ψ (x.set j false) else 0

end Tangelo.JW
