#!/bin/bash
# tools/run_seed.sh <Cxx> <seed dir with patch.diff> [tier] : run the check against a scratch worktree of /repo with the
# seeded change applied (VERIF_REPO points the check at it); /repo itself is not touched.  The worktree is removed afterwards.
pid=$1; d=$(realpath $2); tier=${3:-quick}
cd /verif
wt=$(mktemp -d /tmp/seedwt.XXXXXX)
git -C /repo worktree add -q --detach $wt HEAD || exit 2
git -C $wt apply $d/patch.diff || { git -C /repo worktree remove --force $wt; exit 2; }
VERIF_REPO=$wt ./check $pid --tier $tier 2>&1 | grep -E "VIOLATION|KNOWN-FINDING|exit|^  " | head -12
git -C /repo worktree remove --force $wt; git -C /repo worktree prune
