#!/bin/bash
# tools/run_seed.sh <Cxx> <seed dir with patch.diff> [tier]  : apply to /repo, run the check, undo.
pid=$1; d=$2; tier=${3:-quick}
cd /verif
git -C /repo apply $d/patch.diff || exit 2
./check $pid --tier $tier 2>&1 | grep -E "VIOLATION|KNOWN-FINDING|exit|^  " | head -12
git -C /repo checkout -- .
