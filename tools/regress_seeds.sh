#!/bin/bash
# tools/regress_seeds.sh : apply every seeded change to /repo in turn, run the quick check of its property, undo.
# Writes docs/seed_regression.txt. /repo must be clean and no other check may run meanwhile.
cd /verif
out=docs/seed_regression.txt
echo "seed regression on /repo $(git -C /repo rev-parse --short HEAD), $(date -u +%F)" > $out
for d in /verif/seeded/*/; do
  s=$(basename $d); pid=${s%%-*}
  if ! git -C /repo apply --check $d/patch.diff 2>/dev/null; then echo "$s PATCH-DOES-NOT-APPLY" >> $out; continue; fi
  git -C /repo apply $d/patch.diff
  res=$(./check $pid --tier quick 2>&1 | grep -E "VIOLATION|exit" | tr '\n' ' ' | cut -c1-260)
  git -C /repo checkout -- .
  echo "$s $res" >> $out
done
git -C /repo status --short | grep -v egg-info >> $out
echo done >> $out
