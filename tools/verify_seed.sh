#!/bin/bash
# tools/verify_seed.sh <Cxx> <mN> <worktree> "<pytest targets>"
# Confirms a seeded change in a scratch worktree: demo passes without / fails with the patch, tests pass with it.
pid=$1; m=$2; wt=$3; tests=$4
src=/tmp/seed_out/$pid/$m
set -u
cd $wt || exit 2
git checkout -q -- . 
PYTHONPATH=$wt /venv/bin/python $src/demo.py >/dev/null 2>&1; clean_rc=$?
git apply $src/patch.diff || { echo "patch does not apply"; exit 2; }
PYTHONPATH=$wt /venv/bin/python $src/demo.py >/dev/null 2>&1; mut_rc=$?
tres=$(PYTHONPATH=$wt /venv/bin/python -m pytest -q -p no:cacheprovider $tests 2>&1 | tail -1)
git checkout -q -- .
echo "$pid/$m demo_clean_rc=$clean_rc demo_mutated_rc=$mut_rc tests_with_patch: $tres"
