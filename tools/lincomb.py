"""Helper used while writing proofs: find linear_combination coefficients with sympy (never run by the checks)."""
import re
from sympy import symbols, expand, reduced, Rational, lcm, fraction, Poly

def lean_poly(e, names):
    s = str(expand(e)).replace('**', '^')
    for k in sorted(names, key=len, reverse=True):
        s = re.sub(r'\b' + k + r'\b', names[k], s)
    return s

def solve(p, rels, relnames, gens, names, half=None):
    """p == sum c_i rel_i ; returns Lean linear_combination text. If coefficients are fractional with
    denominator 2 and `half` (symbol h with 2h=1 among rels) is given, uses p = h*(2p) - p*(2h-1)."""
    p = expand(p)
    q, rem = reduced(p, rels, *gens)
    assert rem == 0, ("not in ideal", rem)
    den = 1
    for c in q:
        for t in Poly(c, *gens).coeffs():
            den = lcm(den, fraction(t)[1])
    if den == 1:
        return ' + '.join(f"({lean_poly(c, names)}) * {n}" for c, n in zip(q, relnames) if c != 0)
    assert den == 2 and half is not None, den
    inner = ' + '.join(f"({lean_poly(2*c, names)}) * {n}" for c, n in zip(q, relnames) if c != 0)
    hname, hrel = half
    return f"{names[str(hname)]} * ({inner}) - ({lean_poly(p, names)}) * {hrel}"
