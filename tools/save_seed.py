#!/usr/bin/env python3
"""tools/save_seed.py <Cxx> <mN> <confirmed text> <detected_by text>: copy a confirmed seeded change into /verif/seeded/"""
import sys, json, shutil, os
pid, m, confirmed, detected = sys.argv[1:5]
src = f"/tmp/seed_out/{pid}/{m}"
d = f"/verif/seeded/{pid}-{m}"
os.makedirs(d, exist_ok=True)
shutil.copy(src + "/patch.diff", d)
shutil.copy(src + "/demo.py", d)
meta = json.load(open(src + "/meta.json"))
meta["confirmed"] = confirmed
meta["detected_by"] = detected
json.dump(meta, open(d + "/meta.json", "w"), indent=1)
print("saved", d)
