#!/bin/bash
# tools/regress_seeds_parallel.sh [workers] : re-run every saved seed against the current /repo HEAD, in parallel.
# VERIF_SEED is passed through (default 0; other values write docs/seed_regression_seed<N>.txt).
# Each worker owns a scratch git worktree of /repo (VERIF_REPO points the check at it) and a scratch copy of /verif,
# so /repo itself and the committed evidence are never touched.  Everything under /tmp is removed at the end.
W=${1:-6}
sd=${VERIF_SEED:-0}
out=/verif/docs/seed_regression.txt; [ "$sd" != "0" ] && out=/verif/docs/seed_regression_seed$sd.txt
tmp=/tmp/seedreg${VERIF_SEED:-0}; rm -rf $tmp; mkdir -p $tmp
head=$(git -C /repo rev-parse --short HEAD)
ls -d /verif/seeded/*/ | xargs -n1 basename > $tmp/all.txt
for i in $(seq 1 $W); do
  git -C /repo worktree add -q --detach $tmp/rw$i HEAD
  rsync -a --exclude .git /verif/ $tmp/vs$i/
  # interleave so that the slow properties are spread over the workers
  awk -v w=$W -v i=$i 'NR % w == i % w' $tmp/all.txt > $tmp/list$i.txt
done
worker() {
  i=$1
  while read s; do
    pid=${s%%-*}
    if ! git -C $tmp/rw$i apply --check /verif/seeded/$s/patch.diff 2>/dev/null; then echo "$s PATCH-DOES-NOT-APPLY"; continue; fi
    git -C $tmp/rw$i apply /verif/seeded/$s/patch.diff
    res=$(VERIF_REPO=$tmp/rw$i timeout 1800 $tmp/vs$i/check $pid --tier quick 2>&1 | grep -E "VIOLATION|exit" | tr '\n' ' ' | cut -c1-260)
    git -C $tmp/rw$i checkout -q -- .
    echo "$s $res"
  done < $tmp/list$i.txt > $tmp/out$i.txt
}
for i in $(seq 1 $W); do worker $i & done
wait
{ echo "seed regression on /repo $head, $(date -u +%F) ($(wc -l < $tmp/all.txt) seeds, quick tier, VERIF_SEED=$sd)"; cat $tmp/out*.txt | sort; 
  echo "caught: $(cat $tmp/out*.txt | grep -c 'exit 1')  not caught: $(cat $tmp/out*.txt | grep -vc 'exit 1')"; } > $out
for i in $(seq 1 $W); do git -C /repo worktree remove --force $tmp/rw$i; done
git -C /repo worktree prune
rm -rf $tmp
tail -1 $out
