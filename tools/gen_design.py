#!/usr/bin/env python3
"""Assemble /verif/DESIGN.md from docs/, the property modules, the Lean property files, seeded/ and known_findings.json."""
import ast, glob, json, os, re
ROOT = os.path.dirname(os.path.dirname(os.path.abspath(__file__)))
props = {json.loads(l)["id"]: json.loads(l) for l in open(os.path.join(ROOT, "properties.jsonl"))}
known = json.load(open(os.path.join(ROOT, "known_findings.json")))


def literal(path, name):
    tree = ast.parse(open(path).read())
    for node in tree.body:
        if isinstance(node, ast.Assign) and any(getattr(t, "id", None) == name for t in node.targets):
            try:
                return ast.literal_eval(node.value)
            except Exception:
                return None
    return None


def theorems(pid):
    p = os.path.join(ROOT, "lean", "TangeloProofs", "Props", pid + ".lean")
    if not os.path.exists(p):
        return []
    return re.findall(r"^theorem\s+([A-Za-z0-9_'.?]+)", open(p).read(), flags=re.M)


out = [open(os.path.join(ROOT, "docs", "design_head.md")).read()]
for pid in sorted(props):
    mod = os.path.join(ROOT, "harness", "props", pid + ".py")
    claim = literal(mod, "CLAIM") or {}
    rule = literal(mod, "RULE")
    out.append(f"### {pid} — {props[pid]['title']}\n")
    out.append(f"*Technique.* {claim.get('technique', '')}\n")
    out.append(f"*Claim.* {claim.get('text', '')}\n")
    out.append(f"*Trusted / assumed.* {claim.get('note', '')}\n")
    if rule:
        out.append(f"*Cases.* {rule}\n")
    th = theorems(pid)
    out.append(f"*Property theorems ({len(th)}).* " + ", ".join(f"`{t}`" for t in th) + "\n")
    seeds = []
    for d in sorted(glob.glob(os.path.join(ROOT, "seeded", pid + "-*"))):
        m = json.load(open(os.path.join(d, "meta.json")))
        seeds.append(f"`{os.path.basename(d)}`: {m.get('detected_by', '')}")
    if seeds:
        out.append("*Seeded changes caught.* " + "; ".join(seeds) + "\n")
    fx = [f for f in known.get("fixed", []) if f"property={pid} " in f]
    if fx:
        out.append(f"*Defects repaired ({len(fx)}).* see §4.\n")
    fnd = [f for f in known.get("findings", []) if f.get("property") == pid]
    for f in fnd:
        out.append(f"*Listed finding.* `{f['id']}`: {f['what']}\n")
tail = open(os.path.join(ROOT, "docs", "design_tail.md")).read()
fixed = "\n".join("* " + f[len("fixed: "):] for f in known.get("fixed", []))
finds = "\n".join(f"* **{f['id']}** ({f['property']}): {f['what']} — *not repaired because:* {f.get('why_not_fixed', '')}" for f in known.get("findings", []))
rows = ["| seed | change | needs | caught by |", "|---|---|---|---|"]
for d in sorted(glob.glob(os.path.join(ROOT, "seeded", "*"))):
    m = json.load(open(os.path.join(d, "meta.json")))
    esc = lambda s: str(s).replace("|", "\\|").replace("\n", " ")
    rows.append(f"| {os.path.basename(d)} | {esc(m.get('summary', ''))[:260]} | {esc(m.get('needs', ''))[:200]} | {esc(m.get('detected_by', ''))[:220]} |")
tail = tail.replace("@@FIXED@@", fixed).replace("@@FINDINGS@@", finds or "(none)").replace("@@SEEDS@@", "\n".join(rows)).replace("@@NSEEDS@@", str(len(rows) - 2))
out.append(tail)
open(os.path.join(ROOT, "DESIGN.md"), "w").write("\n".join(out))
print("DESIGN.md written,", sum(len(x) for x in out), "chars")
